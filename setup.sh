#!/bin/sh
# offline setup: nothing to build (pure Python); verify interpreter, that graphiq imports from /repo, and run the self-test.
set -e
cd "$(dirname "$0")"
export PYTHONPATH="${GRAPHIQ_ROOT:-/repo}:$(pwd)" PYTHONDONTWRITEBYTECODE=1 MPLBACKEND=Agg PYTHONHASHSEED=0
mkdir -p evidence replays
/venv/bin/python -W ignore -m vt.selftest
