#!/bin/sh
# tools/benign_queue.sh <stream 0|1> : processes every ready benign change (ids listed in /var/tmp/benign_ready) not yet stored under /verif/benign;
# two streams split the ids by parity of their position; loops until /var/tmp/benign_stop exists
mkdir -p /verif/benign
st=${1:-0}
while [ ! -e /var/tmp/benign_stop ]; do
  did=0; pos=0
  for id in $(cat /var/tmp/benign_ready 2>/dev/null); do
    pos=$((pos+1))
    [ $((pos % 2)) = "$st" ] || continue
    for k in 1 2 3; do
      if [ -e /tmp/benign_out/$id/$k/patch.diff ] && [ ! -e /verif/benign/${id}_$k/meta.json ]; then
        python3 /verif/tools/try_benign.py $id $k >> /var/tmp/benign_$st.log 2>&1
        did=1
      fi
    done
  done
  [ $did = 0 ] && sleep 30
done
