#!/usr/bin/env python3
"""tools/benign_table.py : markdown table of the stored benign changes (/verif/benign/*/meta.json) and what the checks said."""
import json, os, re
rows = []
for nm in sorted(os.listdir("/verif/benign")):
    mp = "/verif/benign/%s/meta.json" % nm
    if not os.path.exists(mp):
        continue
    m = json.load(open(mp))
    notes = ""
    np_ = "/verif/benign/%s/notes.md" % nm
    if os.path.exists(np_):
        txt = open(np_).read()
        first = [l.strip("# ").strip() for l in txt.splitlines() if l.strip()][:1]
        notes = (first[0] if first else "")[:110].replace("|", "/")
    res = "; ".join("%s %s" % (c, v["status"]) for c, v in m["checks_quick"].items())
    hist = m.get("history", "")
    rows.append("| %s | %s | %s | %s%s |" % (nm, ", ".join(os.path.basename(t) for t in m["touched"]), notes, res, (" - " + hist) if hist else ""))
print("| change | files | what (first line of the author's notes) | quick checks run against it |")
print("|---|---|---|---|")
print("\n".join(rows))
