#!/usr/bin/env python3
"""tools/coverage_table.py : rewrites section 7.7 of DESIGN.md from the evidence files of the last runs in /verif/evidence."""
import json, re
rows = []
tot = 0.0
for i in range(1, 21):
    pid = "C%02d" % i
    e = json.load(open("/verif/evidence/%s.json" % pid))
    c = e["coverage"]
    tot += e.get("wall_s", 0) or 0
    rows.append("| %s | %s | %d | %d | %d | %d | %s | %s | %s |" % (pid, e["tier"], c["evaluations"], c["states"], c["transitions"], c["distinct_nontrivial"],
                "yes" if c["exhaustive"] else "cap hit", int(e.get("wall_s", 0) or 0), c["bounds"][:260].replace("|", "/")))
text = """### 7.7 What the quick tier covers as committed (numbers from the evidence files of the last run on the unchanged tree)

All twenty quick checks took %d s in sequence in that run (each uses the 16 cores; on an idle sandbox about 25 minutes, several times longer while
sub-agents, test-suites or other checks run alongside).

| id | tier | executions | distinct states | real transitions compared | distinct non-trivial cases | exhaustive within bounds | wall s | bounds |
|---|---|---|---|---|---|---|---|---|
%s

C19 reports "cap hit" when the owned tiny configuration reaches its execution cap (1200 per solver/target with <= 2 deviations); C16 when the owned
generator exploration of `iso_finder` reaches its cap of 3000 executions per (graph, parameters); the seeded grids are complete.

""" % (tot, "\n".join(rows))
s = open("/verif/DESIGN.md").read()
a = s.index("### 7.7")
b = s.index("### 7.8")
open("/verif/DESIGN.md", "w").write(s[:a] + text + s[b:])
print("rewritten, total wall", int(tot))
