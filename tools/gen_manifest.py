#!/usr/bin/env python3
"""Regenerates /verif/MANIFEST.json from the harness modules present under vt/props (python3, no deps)."""
import json, os, re, ast
ROOT = os.path.dirname(os.path.dirname(os.path.abspath(__file__)))
props = [json.loads(l) for l in open(os.path.join(ROOT, "properties.jsonl"))]
LEVEL = json.load(open(os.path.join(ROOT, "tools", "levels.json")))
checks, na = [], []
for p in props:
    pid = p["id"]
    path = os.path.join(ROOT, "vt", "props", pid.lower() + ".py")
    info = LEVEL.get(pid, {})
    if os.path.exists(path) and not info.get("disabled"):
        checks.append({
            "property_id": pid,
            "quick_cmd": "./check %s quick" % pid,
            "thorough_cmd": "./check %s thorough" % pid,
            "evidence_file": "/verif/evidence/%s.json" % pid,
            "replay_cmd_template": "./check --replay {path}",
            "engine": info.get("engine", "vt"),
            "level_claimed": {"category": "model_checking", "text": info.get("text", ""),
                              "design_ref": "DESIGN.md section 3, " + pid},
            "level_note": info.get("note", ""),
            "technique": info.get("technique", "exhaustive bounded enumeration of the real code against a reference model"),
        })
    else:
        na.append({"property_id": pid, "reason": info.get("na_reason", "check not built yet in this session (planned, see DESIGN.md section 3)")})
man = {
    "version": 1,
    "setup_cmd": "./setup.sh",
    "hooks": {"guard": "GRAPHIQ_VERIF", "enable": "none needed: pure-Python project imported from /repo via PYTHONPATH; the checks observe graphiq by wrapping bound methods at run time, no source hooks exist",
              "baseline_off_cmd": "cd /repo && /venv/bin/python -m pytest -ra -q -p no:cacheprovider --timeout=900 --continue-on-collection-errors",
              "source_commits": [], "add_only": True},
    "engines": [
        {"name": "explore", "path": "vt/explore.py", "kind_free_text": "stateless choice-tree explorer (replay prefix, then default answers; optional deviation bound); all graphiq randomness routed to it by vt/env.py",
         "serves_properties": [c["property_id"] for c in checks]},
        {"name": "bfs", "path": "vt/bfs.py", "kind_free_text": "explicit-state breadth-first search over the real transition functions in lock-step with a reference model",
         "serves_properties": [c["property_id"] for c in checks if LEVEL.get(c["property_id"], {}).get("bfs")]},
    ],
    "checks": checks,
    "not_applicable": na,
    "notes": "All checks: ./check <ID> quick|thorough. Known findings in known_findings.json; fix: commits listed there under 'fixed'.",
}
json.dump(man, open(os.path.join(ROOT, "MANIFEST.json"), "w"), indent=1)
print("checks:", [c["property_id"] for c in checks], "na:", len(na))
