#!/bin/sh
# tools/ingest_queue.sh <parallelism> "<ID k [extra checks]>" ...   -> logs under /var/tmp/ingest/
mkdir -p /var/tmp/ingest
P="$1"; shift
printf '%s\n' "$@" | xargs -P "$P" -I{} sh -c 'set -- {}; python3 /verif/tools/ingest_seed.py "$@" > /var/tmp/ingest/$1_${SEED_TAG}$2.log 2>&1'
