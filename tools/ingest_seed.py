#!/usr/bin/env python3
"""tools/ingest_seed.py <prop id> <k> [extra check ids...]
Takes /tmp/seed_out/<ID>/patch<k>.diff + demo<k>.py + notes<k>.md produced by an independent sub-agent and confirms, in a scratch
worktree of /repo: the patch applies; the demonstration fails with it and passes without it; the pinned test-suite still passes
(all 246 stable tests); then runs the listed checks (default: the property's own) against the patched tree.  On success the change
is stored as /verif/seeded/<ID>_<k>/ (patch.diff, demo.py, notes.md, meta.json)."""
import json, os, shutil, subprocess, sys, tempfile, time, xml.etree.ElementTree as ET

def sh(cmd, **kw):
    return subprocess.run(cmd, capture_output=True, text=True, **kw)

def main():
    pid, k = sys.argv[1], sys.argv[2]
    checks = sys.argv[3:] or [pid]
    src = "%s/%s" % (os.environ.get("SEED_SRC", "/tmp/seed_out"), pid)
    patch, demo, notes = (os.path.join(src, f % k) for f in ("patch%s.diff", "demo%s.py", "notes%s.md"))
    for f in (patch, demo):
        if not os.path.exists(f):
            print("missing", f); return 2
    wt = tempfile.mkdtemp(prefix="gq-seed-", dir="/var/tmp"); os.rmdir(wt)
    sh(["git", "-C", "/repo", "worktree", "add", "-q", "--detach", wt, "HEAD"])
    meta = {"property": pid, "source": "independent sub-agent (given only the property text and a scratch worktree)", "confirmed_at": time.strftime("%Y-%m-%d %H:%M:%S")}
    ok = True
    try:
        env = dict(os.environ, PYTHONPATH=wt, MPLBACKEND="Agg")
        d0 = sh(["/venv/bin/python", "-W", "ignore", demo], cwd=wt, env=env)
        meta["demo_without_patch_exit"] = d0.returncode
        r = sh(["git", "-C", wt, "apply", patch])
        if r.returncode != 0:
            print("patch does not apply:", r.stderr[:300]); return 2
        d1 = sh(["/venv/bin/python", "-W", "ignore", demo], cwd=wt, env=env)
        meta["demo_with_patch_exit"] = d1.returncode
        meta["demo_with_patch_last_line"] = (d1.stderr.strip().splitlines() or d1.stdout.strip().splitlines() or [""])[-1][:300]
        print("demo: without patch exit %d, with patch exit %d" % (d0.returncode, d1.returncode))
        if d0.returncode != 0 or d1.returncode == 0:
            print("REJECTED: demonstration does not discriminate"); ok = False
        if ok and "--skip-tests" not in sys.argv:
            junit = os.path.join("/var/tmp", "seed_%s_%s.xml" % (pid, k))
            t0 = time.time()
            b = sh(["/verif/tools/run_baseline.sh", wt, junit])
            meta["baseline"] = b.stdout.strip().splitlines()[:6]
            print("baseline (%.0fs):" % (time.time() - t0), b.stdout.strip().splitlines()[0] if b.stdout.strip() else b.stderr[-200:])
            if b.returncode != 0:
                print("REJECTED: existing tests no longer pass:", b.stdout[-500:]); ok = False
            if os.path.exists(junit):
                os.remove(junit)
        results = {}
        if ok:
            scratch = tempfile.mkdtemp(prefix="gq-seed-out-", dir="/var/tmp")
            for cid in [c for c in checks if not c.startswith("--")]:
                envc = dict(os.environ, GRAPHIQ_ROOT=wt, VERIF_EVIDENCE_DIR=os.path.join(scratch, "ev"), VERIF_REPLAY_DIR=os.path.join(scratch, "rp"))
                t0 = time.time()
                c = sh(["/verif/check", cid, "quick"], cwd="/verif", env=envc)
                viol = [l for l in c.stdout.splitlines() if l.startswith("VIOLATION")]
                keys = [l.strip().replace("unlisted violation ", "") for l in c.stderr.splitlines() if "unlisted violation key=" in l]
                status = "detected" if (c.returncode == 1 and viol) else ("missed" if c.returncode == 0 else "error rc=%d" % c.returncode)
                results[cid] = {"status": status, "wall_s": round(time.time() - t0), "keys": keys[:4]}
                print(cid, status, keys[:2])
                if status.startswith("error"):
                    print(c.stderr[-600:])
            shutil.rmtree(scratch, ignore_errors=True)
            meta["checks_quick"] = results
    finally:
        sh(["git", "-C", "/repo", "worktree", "remove", "--force", wt])
    if not ok:
        return 1
    dst = "/verif/seeded/%s_%s%s" % (pid, os.environ.get("SEED_TAG", ""), k)
    os.makedirs(dst, exist_ok=True)
    shutil.copy(patch, os.path.join(dst, "patch.diff"))
    shutil.copy(demo, os.path.join(dst, "demo.py"))
    if os.path.exists(notes):
        shutil.copy(notes, os.path.join(dst, "notes.md"))
        meta["needs_to_manifest"] = open(notes).read()[:1500]
    meta["what_was_run"] = ["demo.py on clean and patched scratch worktree", "tools/run_baseline.sh (pinned suite, 246 stable tests) on the patched worktree",
                            "./check <id> quick with GRAPHIQ_ROOT=<patched worktree> for: " + ", ".join(results)]
    json.dump(meta, open(os.path.join(dst, "meta.json"), "w"), indent=1)
    print("stored", dst)
    return 0

if __name__ == "__main__":
    sys.exit(main())
