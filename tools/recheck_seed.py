#!/usr/bin/env python3
"""tools/recheck_seed.py <seed dir name> <check ids...> : re-run checks against a stored seed with the current /verif; records the
result under meta.json["checks_quick_final"]."""
import json, os, re, subprocess, sys
name, ids = sys.argv[1], sys.argv[2:]
d = "/verif/seeded/" + name
out = subprocess.run(["python3", "/verif/tools/try_seed.py", d + "/patch.diff"] + ids, capture_output=True, text=True).stdout
meta = json.load(open(d + "/meta.json"))
fin = meta.setdefault("checks_quick_final", {})
for line in out.splitlines():
    m = re.match(r"(C\d+) quick (DETECTED|missed|error\S*) in (\d+)s ?(.*)", line)
    if m:
        fin[m.group(1)] = {"status": m.group(2).lower(), "wall_s": int(m.group(3)), "keys": [k.strip() for k in m.group(4).split(";") if k.strip()][:3]}
json.dump(meta, open(d + "/meta.json", "w"), indent=1)
print(name, {k: v["status"] for k, v in fin.items()})
