#!/usr/bin/env python3
"""tools/replay_sweep.py [seed names...] : for every stored seeded change, run the first quick check recorded as detecting it and validate
that each VIOLATION's replay file reproduces on the changed tree and is silent on /repo (tools/try_seed.py does the work)."""
import json, os, subprocess, sys
names = sys.argv[1:] or sorted(os.listdir("/verif/seeded"))
for nm in names:
    d = "/verif/seeded/" + nm
    if not os.path.exists(d + "/meta.json"):
        continue
    meta = json.load(open(d + "/meta.json"))
    det = []
    for k in ("checks_quick_final", "checks_quick"):
        for cid, v in meta.get(k, {}).items():
            if v.get("status") == "detected" and cid not in det:
                det.append(cid)
    own = meta["property"]
    cid = own if own in det else (det[0] if det else own)
    out = subprocess.run(["python3", "/verif/tools/try_seed.py", d + "/patch.diff", cid], capture_output=True, text=True).stdout
    print("## %s via %s" % (nm, cid)); print(out.strip()[:1500]); sys.stdout.flush()
