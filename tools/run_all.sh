#!/bin/sh
# tools/run_all.sh <tier> <ids...> : runs the checks one after another, prints status and wall time
tier="$1"; shift
for id in "$@"; do
  s=$(date +%s)
  out=$(./check "$id" "$tier" 2>&1 | grep -v "shard \|bfs depth" | tail -6)
  rc=$?
  e=$(date +%s)
  echo "== $id $tier $((e-s))s"; echo "$out" | grep "VIOLATION\|KNOWN\|HARNESS\|\[$id" | cut -c1-260
done
