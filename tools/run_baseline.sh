#!/bin/sh
# runs the repository's pinned test-suite (optionally against another tree) and compares with BASELINE.json stable_pass
# usage: tools/run_baseline.sh [repo_dir] [junit_out]
REPO="${1:-/repo}"; OUT="${2:-/var/tmp/baseline_$$.xml}"
cd "$REPO" && MPLBACKEND=Agg /venv/bin/python -m pytest -q -p no:cacheprovider --timeout=900 --continue-on-collection-errors -n 8 --junitxml="$OUT" >/dev/null 2>&1
python3 - "$OUT" <<'PY'
import sys, json, xml.etree.ElementTree as ET
base=set(json.load(open('/root/.vp/BASELINE.json'))['stable_pass'])
passed=set()
for tc in ET.parse(sys.argv[1]).getroot().iter('testcase'):
    if not any(c.tag in ('failure','error','skipped') for c in tc):
        passed.add(tc.get('classname')+'::'+tc.get('name'))
missing=sorted(base-passed)
print("baseline stable:",len(base),"passed now:",len(base&passed),"missing:",len(missing))
for m in missing: print("  MISSING",m)
sys.exit(1 if missing else 0)
PY
