#!/bin/sh
# runs the repository's pinned test-suite (optionally against another tree) and compares with BASELINE.json stable_pass
# usage: tools/run_baseline.sh [repo_dir] [junit_out]
# Stable tests that do not pass in the parallel run are re-run once on their own (the parallel run is sensitive to machine load:
# per-test timeouts, unseeded random tests); a test counts as passing if it passes in either run.
REPO="${1:-/repo}"; OUT="${2:-/var/tmp/baseline_$$.xml}"
cd "$REPO" && MPLBACKEND=Agg /venv/bin/python -m pytest -q -p no:cacheprovider --timeout=900 --continue-on-collection-errors -n 8 --junitxml="$OUT" >/dev/null 2>&1
python3 - "$OUT" "$REPO" <<'PY'
import sys, json, subprocess, os, xml.etree.ElementTree as ET
base=set(json.load(open('/root/.vp/BASELINE.json'))['stable_pass'])
def passed_of(path):
    s=set()
    for tc in ET.parse(path).getroot().iter('testcase'):
        if not any(c.tag in ('failure','error','skipped') for c in tc):
            s.add(tc.get('classname')+'::'+tc.get('name'))
    return s
passed=passed_of(sys.argv[1])
missing=sorted(base-passed)
retried=[]
if missing and len(missing) <= 25:
    ids=[]
    for m in missing:
        cls,name=m.split('::',1)
        ids.append(cls.replace('.','/')+'.py::'+name)
    out2=sys.argv[1]+'.retry.xml'
    subprocess.run(['/venv/bin/python','-m','pytest','-q','-p','no:cacheprovider','--timeout=900','--junitxml='+out2]+ids,cwd=sys.argv[2],env=dict(os.environ,MPLBACKEND='Agg'),stdout=subprocess.DEVNULL,stderr=subprocess.DEVNULL)
    if os.path.exists(out2):
        p2=passed_of(out2); retried=sorted(set(missing)&p2); passed|=p2; os.remove(out2)
    missing=sorted(base-passed)
print("baseline stable:",len(base),"passed now:",len(base&passed),"missing:",len(missing), ("(passed on individual re-run: %d)"%len(retried)) if retried else "")
for m in retried: print("  RETRIED-OK",m)
for m in missing: print("  MISSING",m)
sys.exit(1 if missing else 0)
PY
