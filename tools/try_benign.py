#!/usr/bin/env python3
"""tools/try_benign.py <ID> <k> [extra check ids...]   (source: $BENIGN_SRC/<ID>/<k>/{patch.diff,notes.md}, default /tmp/benign_out)
A *benign* change keeps the property true; every check run against it must stay silent.  Applies the patch to a scratch worktree of
/repo (outside /repo and /verif), runs the property's own quick check plus the checks of the properties anchored in the touched files
(at most 3 in total unless given explicitly), stores patch, notes and results under /verif/benign/<ID>_<k>/ and removes the worktree."""
import json, os, re, shutil, subprocess, sys, tempfile, time

def related(pid, patch, limit=2):
    touched = set(re.findall(r"^\+\+\+ b/(\S+)", open(patch).read(), re.M))
    score = {}
    for l in open("/verif/properties.jsonl"):
        p = json.loads(l)
        files = set(p["anchors"].get("files", []))
        score[p["id"]] = len(files & touched)
    cheap = {"C03", "C05", "C08", "C09", "C14", "C16", "C17", "C20"}   # < 60 s on an idle machine
    rel = [i for i, s in sorted(score.items(), key=lambda kv: (-kv[1], kv[0])) if s > 0 and i != pid]
    ids = [pid] + [i for i in rel if i in cheap][:limit - 1]
    return ids, sorted(touched)

def main():
    pid, k = sys.argv[1], sys.argv[2]
    src = os.path.join(os.environ.get("BENIGN_SRC", "/tmp/benign_out"), pid, k)
    patch = os.path.join(src, "patch.diff")
    ids, touched = related(pid, patch)
    for x in sys.argv[3:]:
        if x not in ids:
            ids.append(x)
    wt = tempfile.mkdtemp(prefix="gq-ben-", dir="/var/tmp"); os.rmdir(wt)
    subprocess.check_call(["git", "-C", "/repo", "worktree", "add", "-q", "--detach", wt, "HEAD"])
    scratch = tempfile.mkdtemp(prefix="gq-ben-out-", dir="/var/tmp")
    dest = "/verif/benign/%s_%s" % (pid, k)
    res = {}
    try:
        r = subprocess.run(["git", "-C", wt, "apply", patch], capture_output=True, text=True)
        base = "HEAD"
        if r.returncode != 0:
            r = subprocess.run(["git", "-C", wt, "apply", "--3way", patch], capture_output=True, text=True)
            if r.returncode != 0 or subprocess.run(["git", "-C", wt, "diff", "--name-only", "--diff-filter=U"], capture_output=True, text=True).stdout.strip():
                # the patch was written against an older commit and overlaps a later fix: run it on the commit it was written for
                base = os.environ.get("BENIGN_BASE", "ec3042c")
                subprocess.check_call(["git", "-C", wt, "reset", "-q", "--hard"])
                subprocess.check_call(["git", "-C", wt, "checkout", "-q", "--detach", base])
                r = subprocess.run(["git", "-C", wt, "apply", patch], capture_output=True, text=True)
                if r.returncode != 0:
                    print("%s_%s PATCH-DOES-NOT-APPLY %s" % (pid, k, r.stderr.strip()[:200])); return 2
            print("%s_%s applied on %s" % (pid, k, base))
        for cid in ids:
            env = dict(os.environ, GRAPHIQ_ROOT=wt, VERIF_EVIDENCE_DIR=os.path.join(scratch, "ev"), VERIF_REPLAY_DIR=os.path.join(scratch, "rp"))
            t0 = time.time()
            c = subprocess.run(["/verif/check", cid, "quick"], cwd="/verif", env=env, capture_output=True, text=True)
            keys = [l.strip().replace("unlisted violation ", "") for l in c.stderr.splitlines() if "unlisted violation key=" in l]
            status = "silent" if c.returncode == 0 and "VIOLATION" not in c.stdout else ("ALARM" if c.returncode == 1 else "error(rc=%d)" % c.returncode)
            res[cid] = {"status": status, "wall_s": int(time.time() - t0), "keys": keys[:4]}
            print("%s_%s %s quick %s in %.0fs %s" % (pid, k, cid, status, time.time() - t0, "; ".join(keys[:3])[:400]))
            if status != "silent":
                ex = [l for l in c.stderr.splitlines() if l.strip().startswith(("case=", "expected=", "observed="))][:6]
                print("\n".join("    " + e.strip()[:300] for e in ex))
                if status.startswith("error"):
                    print(c.stderr[-1500:])
            sys.stdout.flush()
    finally:
        subprocess.call(["git", "-C", "/repo", "worktree", "remove", "--force", wt])
        shutil.rmtree(scratch, ignore_errors=True)
    os.makedirs(dest, exist_ok=True)
    shutil.copy(patch, dest + "/patch.diff")
    if os.path.exists(src + "/notes.md"):
        shutil.copy(src + "/notes.md", dest + "/notes.md")
    meta = {"property": pid, "kind": "benign (property still holds; checks must stay silent)", "source": "independent sub-agent (given only the property text and a scratch worktree)",
            "touched": touched, "applied_on": base, "repo_head": subprocess.check_output(["git", "-C", "/repo", "rev-parse", "--short", "HEAD"], text=True).strip(),
            "checks_quick": res, "run_at": time.strftime("%Y-%m-%d %H:%M:%S")}
    json.dump(meta, open(dest + "/meta.json", "w"), indent=1)
    return 0

if __name__ == "__main__":
    sys.exit(main())
