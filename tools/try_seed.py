#!/usr/bin/env python3
"""tools/try_seed.py <patch.diff> <check ids...> [--demo demo.py] [--tier quick]
Applies the patch to a scratch worktree of /repo (outside /repo and /verif), runs the demo (must fail) and the listed checks
against that tree (GRAPHIQ_ROOT), prints one line per check: DETECTED / missed / error, and removes the worktree."""
import os, subprocess, sys, tempfile, shutil, time

def main():
    args = sys.argv[1:]
    patch = os.path.abspath(args[0])
    demo = None
    tier = "quick"
    ids = []
    i = 1
    while i < len(args):
        if args[i] == "--demo":
            demo = os.path.abspath(args[i + 1]); i += 2
        elif args[i] == "--tier":
            tier = args[i + 1]; i += 2
        else:
            ids.append(args[i]); i += 1
    wt = tempfile.mkdtemp(prefix="gq-mut-", dir="/var/tmp")
    os.rmdir(wt)
    subprocess.check_call(["git", "-C", "/repo", "worktree", "add", "-q", "--detach", wt, "HEAD"])
    scratch = tempfile.mkdtemp(prefix="gq-mut-out-", dir="/var/tmp")
    rc_all = 0
    try:
        r = subprocess.run(["git", "-C", wt, "apply", patch], capture_output=True, text=True)
        if r.returncode != 0:
            print("PATCH-DOES-NOT-APPLY", r.stderr.strip()[:300]); return 2
        if demo:
            env = dict(os.environ, PYTHONPATH=wt, MPLBACKEND="Agg")
            d = subprocess.run(["/venv/bin/python", "-W", "ignore", demo], cwd=wt, env=env, capture_output=True, text=True)
            print("demo with patch: exit", d.returncode, (d.stderr.strip().splitlines() or [""])[-1][:200])
        for cid in ids:
            env = dict(os.environ, GRAPHIQ_ROOT=wt, VERIF_EVIDENCE_DIR=os.path.join(scratch, "ev"), VERIF_REPLAY_DIR=os.path.join(scratch, "rp"))
            t0 = time.time()
            c = subprocess.run(["/verif/check", cid, tier], cwd="/verif", env=env, capture_output=True, text=True)
            viol = [l for l in c.stdout.splitlines() if l.startswith("VIOLATION")]
            keys = [l.strip() for l in c.stderr.splitlines() if "unlisted violation key=" in l]
            status = "DETECTED" if (c.returncode == 1 and viol) else ("missed" if c.returncode == 0 else "error(rc=%d)" % c.returncode)
            print("%s %s %s in %.0fs %s" % (cid, tier, status, time.time() - t0, "; ".join(k.replace("unlisted violation ", "") for k in keys[:3])))
            if status.startswith("error"):
                print(c.stderr[-800:])
            # every reported violation must be a replayable artefact: reproduced on the changed tree, silent on /repo
            files = [l.split("replay=", 1)[1].strip() for l in viol]
            rep = sil = 0
            bad = []
            for f in files[:6]:
                r1 = subprocess.run(["/verif/check", "--replay", f], cwd="/verif", env=env, capture_output=True, text=True)
                env0 = {k: v for k, v in env.items() if k != "GRAPHIQ_ROOT"}
                r0 = subprocess.run(["/verif/check", "--replay", f], cwd="/verif", env=env0, capture_output=True, text=True)
                ok1 = r1.returncode == 1 and "REPRODUCED key=" in r1.stdout
                ok0 = r0.returncode == 0 and "NOT REPRODUCED" in r0.stdout
                rep += ok1; sil += ok0
                if not (ok1 and ok0):
                    bad.append((os.path.basename(f), r1.returncode, (r1.stdout + r1.stderr).strip().splitlines()[-1:][0][:160] if (r1.stdout + r1.stderr).strip() else "",
                                r0.returncode, (r0.stdout + r0.stderr).strip().splitlines()[-1:][0][:160] if (r0.stdout + r0.stderr).strip() else ""))
            if files:
                print("%s replays: %d/%d reproduced on the changed tree, %d/%d silent on /repo" % (cid, rep, min(len(files), 6), sil, min(len(files), 6)))
                for b in bad:
                    print("   REPLAY-PROBLEM", b)
    finally:
        subprocess.call(["git", "-C", "/repo", "worktree", "remove", "--force", wt])
        shutil.rmtree(scratch, ignore_errors=True)
    return rc_all

if __name__ == "__main__":
    sys.exit(main())
