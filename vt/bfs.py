"""Engine B - explicit-state breadth-first search over the real transition functions, level-synchronous over a
forked worker pool.  The property module supplies

    initial_states(tier)            -> list of (key, blob)
    expand(blob, tier, acc)         -> list of (key, blob) successors to be explored further
                                       (runs the real step and the reference step, compares, records into acc)

Merging is by `key`; the module documents why states with equal keys have equal futures.
"""
import importlib
import multiprocessing as mp
import os
import sys
import time
import traceback

from . import core

_MOD = None
_TIER = None


def _init(modname, tier):
    global _MOD, _TIER
    sys.stdout = open(os.devnull, "w")
    import warnings
    warnings.filterwarnings("ignore")
    _MOD = importlib.import_module(modname)
    _TIER = tier


def _work(chunk):
    try:
        acc = core.Acc(_MOD.ID, predicates=getattr(_MOD, "PREDICATES", {}))
        succ = {}
        for blob in chunk:
            for k, b in _MOD.expand(blob, _TIER, acc):
                if k not in succ:
                    succ[k] = b
        return acc.strip(), succ, None
    except BaseException:
        return None, None, traceback.format_exc()


def search(modname, tier, max_depth=None, nproc=None, chunk=64, progress=True, max_states=None):
    mod = importlib.import_module(modname)
    nproc = nproc or int(os.environ.get("VERIF_NPROC", "16"))
    total = core.Acc(mod.ID, predicates=getattr(mod, "PREDICATES", {}))
    seen = {}
    frontier = []
    for k, b in mod.initial_states(tier):
        if k not in seen:
            seen[k] = True
            frontier.append(b)
    depth = 0
    exhausted = True
    ctx = mp.get_context("fork")
    with ctx.Pool(nproc, initializer=_init, initargs=(modname, tier)) as pool:
        while frontier:
            if max_depth is not None and depth >= max_depth:
                exhausted = False
                break
            chunks = [frontier[i:i + chunk] for i in range(0, len(frontier), chunk)]
            nxt = []
            for acc, succ, err in pool.imap(_work, chunks):
                if err:
                    raise core.HarnessError("bfs worker failed:\n" + err)
                total.merge(acc)
                for k in sorted(succ):
                    if k not in seen:
                        seen[k] = True
                        nxt.append(succ[k])
            depth += 1
            if progress:
                sys.stderr.write("  [%s] bfs depth %d: states=%d frontier=%d transitions=%d\n" % (
                    mod.ID, depth, len(seen), len(nxt), total.transitions))
            frontier = nxt
            if max_states is not None and len(seen) > max_states:
                exhausted = False
                total.caps_hit += 1
                break
    total.max_depth = depth
    total.counters["bfs_states"] = len(seen)
    total.counters["bfs_frontier_exhausted"] = int(exhausted and not frontier)
    for k in seen:
        total.states.add(core.h64(repr(k)))
    return total
