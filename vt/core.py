"""Accumulators, known-finding matching, worker pool, evidence and replay files."""
import collections
import hashlib
import json
import multiprocessing as mp
import os
import sys
import time
import traceback

VERIF = os.path.dirname(os.path.dirname(os.path.abspath(__file__)))
FINDINGS_FILE = os.path.join(VERIF, "known_findings.json")


def h64(obj):
    if not isinstance(obj, (bytes, str)):
        obj = json.dumps(obj, sort_keys=True, default=str)
    if isinstance(obj, str):
        obj = obj.encode()
    return int.from_bytes(hashlib.blake2b(obj, digest_size=8).digest(), "big")


def jdump(o):
    return json.dumps(o, sort_keys=True, default=_jd)


def _jd(o):
    import numpy as np
    if isinstance(o, (np.integer,)):
        return int(o)
    if isinstance(o, (np.floating,)):
        return float(o)
    if isinstance(o, complex):
        return [o.real, o.imag]
    if isinstance(o, np.ndarray):
        return o.tolist()
    if isinstance(o, (set, frozenset)):
        return sorted(o, key=str)
    return str(o)


class HarnessError(Exception):
    pass


def load_findings(prop):
    if not os.path.exists(FINDINGS_FILE):
        return []
    with open(FINDINGS_FILE) as f:
        data = json.load(f)
    return [e for e in data.get("findings", []) if e.get("property") == prop]


class Acc:
    """what one shard (or the merged run) covered and found."""
    MAX_EX = 3

    def __init__(self, prop, findings=None, predicates=None):
        self.prop = prop
        self.evaluations = 0
        self.transitions = 0
        self.validated = 0
        self.states = set()
        self.nontrivial = set()
        self.samples = []
        self.max_depth = 0
        self.caps_hit = 0
        self.unowned = 0
        self.refusals = collections.Counter()
        self.counters = collections.Counter()
        self.viol = {}  # (key, finding_id) -> {"count":, "examples": [...]}
        self.findings = findings if findings is not None else load_findings(prop)
        self.predicates = predicates or {}

    # ---- recording -------------------------------------------------------------------
    def state(self, obj):
        self.states.add(h64(obj))

    def nontriv(self, obj):
        self.nontrivial.add(h64(obj))

    def nontriv_fast(self, obj):
        """for hashable tuples of ints/bytes/str (PYTHONHASHSEED is pinned by ./check)."""
        self.nontrivial.add(hash(obj))

    def sample(self, obj):
        if len(self.samples) < 3:
            self.samples.append(obj)

    def count(self, name, k=1):
        self.counters[name] += k

    def refusal(self, what):
        self.refusals[what] += 1

    def classify(self, sub, site, symptom, case):
        for e in self.findings:
            if e.get("sub") not in (None, sub):
                continue
            if e.get("site") not in (None, site):
                continue
            if e.get("symptom") not in (None, symptom):
                continue
            if "inputs" in e:
                if jdump(case) in [jdump(i) for i in e["inputs"]]:
                    return e["id"]
                continue
            pred = e.get("predicate")
            if pred is None:
                return e["id"]
            fn = self.predicates.get(pred)
            if fn is None:
                raise HarnessError("known finding %s names unknown predicate %s" % (e["id"], pred))
            try:
                ok = fn(case)
            except Exception as ex:  # a predicate must never crash the run silently
                raise HarnessError("predicate %s failed on %r: %r" % (pred, case, ex))
            if ok:
                return e["id"]
        return None

    def violation(self, sub, site, symptom, case, expected=None, observed=None, repro=None, size=None):
        """sub: sub-oracle id; site: API call site; symptom: class of failure; case: JSON-able replayable case."""
        fid = self.classify(sub, site, symptom, case)
        key = "%s|%s|%s" % (sub, site, symptom)
        slot = self.viol.setdefault((key, fid), {"count": 0, "examples": []})
        slot["count"] += 1
        sz = size if size is not None else len(jdump(case))
        ex = {"size": sz, "case": case, "expected": expected, "observed": observed, "repro": repro,
              "sub": sub, "site": site, "symptom": symptom}
        exs = slot["examples"]
        exs.append(ex)
        exs.sort(key=lambda e: (e["size"], jdump(e["case"])))
        del exs[self.MAX_EX:]

    # ---- merging ---------------------------------------------------------------------
    def merge(self, o):
        self.evaluations += o.evaluations
        self.transitions += o.transitions
        self.validated += o.validated
        self.states |= o.states
        self.nontrivial |= o.nontrivial
        for s in o.samples:
            self.sample(s)
        self.max_depth = max(self.max_depth, o.max_depth)
        self.caps_hit += o.caps_hit
        self.unowned += o.unowned
        self.refusals.update(o.refusals)
        self.counters.update(o.counters)
        for k, slot in o.viol.items():
            mine = self.viol.setdefault(k, {"count": 0, "examples": []})
            mine["count"] += slot["count"]
            mine["examples"].extend(slot["examples"])
            mine["examples"].sort(key=lambda e: (e["size"], jdump(e["case"])))
            del mine["examples"][self.MAX_EX:]

    def strip(self):
        """drop what need not travel between processes."""
        self.findings = None
        self.predicates = None
        return self


# ---- worker pool ---------------------------------------------------------------------

_MOD = None


def _worker_init(modname):
    global _MOD
    import importlib
    devnull = open(os.devnull, "w")
    sys.stdout = devnull  # only the runner may print VIOLATION lines
    import warnings
    warnings.filterwarnings("ignore")
    _MOD = importlib.import_module(modname)


def _worker_run(args):
    idx, shard, tier = args
    t0 = time.time()
    try:
        acc = Acc(_MOD.ID, predicates=getattr(_MOD, "PREDICATES", {}))
        _MOD.run_shard(shard, tier, acc)
        return idx, acc.strip(), None, time.time() - t0
    except BaseException:
        return idx, None, traceback.format_exc(), time.time() - t0


def run_pool(modname, shards, tier, nproc=None, progress=True):
    """run all shards of a property module over forked long-lived workers; returns merged Acc.
    Results are merged in shard order, so the verdict does not depend on worker scheduling."""
    import importlib
    mod = importlib.import_module(modname)
    nproc = nproc or min(int(os.environ.get("VERIF_NPROC", "16")), max(1, len(shards)))
    total = Acc(mod.ID, predicates=getattr(mod, "PREDICATES", {}))
    results = {}
    errors = []
    times = []
    jobs = [(i, s, tier) for i, s in enumerate(shards)]
    if nproc <= 1 or len(shards) <= 1:
        _worker_init_inproc(mod)
        for j in jobs:
            idx, acc, err, dt = _inproc_run(mod, j)
            if err:
                errors.append((idx, err))
            else:
                results[idx] = acc
    else:
        ctx = mp.get_context("fork")
        with ctx.Pool(nproc, initializer=_worker_init, initargs=(modname,)) as pool:
            done = 0
            for idx, acc, err, dt in pool.imap_unordered(_worker_run, jobs, chunksize=1):
                done += 1
                times.append((dt, idx))
                if err:
                    errors.append((idx, err))
                else:
                    results[idx] = acc
                if progress and (done % max(1, len(jobs) // 10) == 0):
                    sys.stderr.write("  [%s] shard %d/%d\n" % (mod.ID, done, len(jobs)))
    if progress and times:
        times.sort(reverse=True)
        sys.stderr.write("  [%s] slowest shards: %s\n" % (mod.ID, "; ".join("%.1fs %s" % (dt, jdump(shards[i])[:80]) for dt, i in times[:3])))
    if errors:
        raise HarnessError("shard %r failed:\n%s" % (shards[errors[0][0]], errors[0][1]))
    for i in sorted(results):
        total.merge(results[i])
    return total


def _worker_init_inproc(mod):
    pass


def _inproc_run(mod, args):
    idx, shard, tier = args
    t0 = time.time()
    try:
        acc = Acc(mod.ID, predicates=getattr(mod, "PREDICATES", {}))
        old = sys.stdout
        sys.stdout = open(os.devnull, "w")
        try:
            mod.run_shard(shard, tier, acc)
        finally:
            sys.stdout = old
        return idx, acc.strip(), None, time.time() - t0
    except BaseException:
        return idx, None, traceback.format_exc(), time.time() - t0


class time_limit:
    """per-call watchdog (signal based, main thread of a worker): raises TimeoutError inside the block.
    The horizon is counted in CPU time of the process (ITIMER_VIRTUAL), so it does not depend on how busy the machine is; a call that
    blocks without computing is not caught (the library does not block).  If the timer fired, whatever left the block counts as a
    timeout - library code may catch the TimeoutError raised inside it and re-raise something else."""

    def __init__(self, seconds):
        self.seconds = seconds
        self.fired = False

    def __enter__(self):
        import signal

        def handler(signum, frame):
            self.fired = True
            raise TimeoutError("no termination within %.1f s of CPU time" % self.seconds)
        self.old = signal.signal(signal.SIGVTALRM, handler)
        signal.setitimer(signal.ITIMER_VIRTUAL, self.seconds)
        return self

    def __exit__(self, exc_type, exc, tb):
        import signal
        signal.setitimer(signal.ITIMER_VIRTUAL, 0)
        signal.signal(signal.SIGVTALRM, self.old)
        if self.fired and exc_type is not TimeoutError:
            raise TimeoutError("no termination within %.1f s of CPU time" % self.seconds)
        return False
