"""Owning graphiq's nondeterminism: every random draw becomes a chooser decision over its support.

with Owned(ch):   np.random.* / random.* draws used by graphiq are answered by ch.choose;
                  any other attribute of np.random / random raises UnownedRandomness (tripwire).
with Seeded():    real generators, untouched (used where the property is about seeds).
"""
import math
import random as _random
import numpy as np

EPS_P = 1e-9


class UnownedRandomness(Exception):
    pass


_NP_OWNED = ["randint", "choice", "shuffle", "permutation", "seed", "default_rng", "random", "rand"]
_NP_TRIP = ["normal", "uniform", "randn", "random_sample", "ranf", "sample", "binomial", "poisson", "beta",
            "gamma", "exponential", "bytes", "multinomial", "random_integers", "standard_normal", "get_state",
            "set_state", "RandomState", "Generator"]
_PY_OWNED = ["choices", "choice", "random", "uniform", "shuffle", "seed", "randint", "sample", "randrange"]
_PY_TRIP = ["gauss", "normalvariate", "betavariate", "expovariate", "getrandbits", "triangular", "getstate",
            "setstate"]


def _support(p):
    return [i for i, x in enumerate(p) if x > EPS_P]


class FakeGenerator:
    def __init__(self, ch, seed=None):
        self.ch = ch
        self.seed = seed

    def integers(self, low, high=None, size=None, endpoint=False):
        if high is None:
            low, high = 0, low
        if endpoint:
            high += 1
        if size is None:
            return low + self.ch.choose(high - low, "rng.integers")
        return np.array([low + self.ch.choose(high - low, "rng.integers") for _ in range(int(np.prod(size)))]).reshape(size)

    def permutation(self, x):
        items = list(range(x)) if isinstance(x, (int, np.integer)) else list(x)
        out = []
        while items:
            out.append(items.pop(self.ch.choose(len(items), "rng.permutation")))
        return np.array(out)

    def shuffle(self, x):
        p = self.permutation(len(x))
        vals = [x[i] for i in p]
        for i, v in enumerate(vals):
            x[i] = v

    def choice(self, a, size=None, replace=True, p=None, axis=0, shuffle=True):
        return _choice(self.ch, a, size, replace, p, "rng.choice")

    def random(self, size=None):
        # two-point support is not a faithful stand-in for a continuous draw -> refuse
        raise UnownedRandomness("Generator.random")

    def __getattr__(self, name):
        raise UnownedRandomness("Generator." + name)


def _choice(ch, a, size, replace, p, tag):
    items = list(range(a)) if isinstance(a, (int, np.integer)) else list(a)
    if p is not None:
        p = list(np.asarray(p, dtype=float))
        sup = _support(p)
    else:
        sup = list(range(len(items)))
    if size is None:
        return items[sup[ch.choose(len(sup), tag)]]
    cnt = int(np.prod(size))
    out = []
    sup = list(sup)
    for _ in range(cnt):
        j = ch.choose(len(sup), tag)
        out.append(items[sup[j]])
        if not replace:
            sup.pop(j)
    if out:
        arr = np.array(out)
    elif items:
        arr = np.empty((0,) + np.asarray(items[0]).shape, dtype=np.asarray(items[0]).dtype)
    else:
        arr = np.empty((0,))
    shape = (size,) if isinstance(size, (int, np.integer)) else tuple(size)
    return arr.reshape(shape + arr.shape[1:])  # like numpy: sampling happens along axis 0


class _DevChooser:
    """wraps a chooser so that every draw is tagged as a deviation point (for deviation-bounded exploration)."""

    def __init__(self, ch):
        self._ch = ch

    def choose(self, k, tag=""):
        return self._ch.choose(k, "dev:" + tag)


class Owned:
    def __init__(self, ch, dev=False):
        self.ch = _DevChooser(ch) if dev else ch
        self.saved = []
        self.trips = 0

    def _set(self, mod, name, val):
        if hasattr(mod, name):
            self.saved.append((mod, name, getattr(mod, name)))
            setattr(mod, name, val)

    def __enter__(self):
        ch = self.ch
        nr = np.random

        def randint(low, high=None, size=None, dtype=int):
            if high is None:
                low, high = 0, low
            if size is None:
                return low + ch.choose(high - low, "np.randint")
            cnt = int(np.prod(size))
            return np.array([low + ch.choose(high - low, "np.randint") for _ in range(cnt)]).reshape(size)

        def choice(a, size=None, replace=True, p=None):
            return _choice(ch, a, size, replace, p, "np.choice")

        def shuffle(x):
            FakeGenerator(ch).shuffle(x)

        def permutation(x):
            return FakeGenerator(ch).permutation(x)

        def seed(*a, **k):
            return None

        def default_rng(seed=None):
            return FakeGenerator(ch, seed)

        def trip(name):
            def f(*a, **k):
                self.trips += 1
                raise UnownedRandomness(name)
            return f

        self._set(nr, "randint", randint)
        self._set(nr, "choice", choice)
        self._set(nr, "shuffle", shuffle)
        self._set(nr, "permutation", permutation)
        self._set(nr, "seed", seed)
        self._set(nr, "default_rng", default_rng)
        for nme in ["random", "rand"] + _NP_TRIP:
            self._set(nr, nme, trip("np.random." + nme))

        def py_choices(population, weights=None, cum_weights=None, k=1):
            pop = list(population)
            if weights is not None or cum_weights is not None:
                raise UnownedRandomness("random.choices with weights")
            return [pop[ch.choose(len(pop), "random.choices")] for _ in range(k)]

        def py_choice(seq):
            seq = list(seq)
            return seq[ch.choose(len(seq), "random.choice")]

        def py_shuffle(x):
            FakeGenerator(ch).shuffle(x)

        def py_randint(a, b):
            return a + ch.choose(b - a + 1, "random.randint")

        self._set(_random, "choices", py_choices)
        self._set(_random, "choice", py_choice)
        self._set(_random, "shuffle", py_shuffle)
        self._set(_random, "randint", py_randint)
        self._set(_random, "seed", seed)
        for nme in ["random", "uniform", "sample", "randrange"] + _PY_TRIP:
            self._set(_random, nme, trip("random." + nme))
        return self

    def __exit__(self, *exc):
        for mod, name, val in reversed(self.saved):
            setattr(mod, name, val)
        self.saved = []
        return False
