"""Engine A - stateless choice-tree explorer ("replay a prefix, then take answer 0").

A harness body is body(ch) -> observation.  Every decision not fixed by the code under test goes through
ch.choose(k, tag).  explore() enumerates every leaf of the resulting tree (optionally within a deviation
bound for choices whose tag starts with 'dev:').  A replayed prefix that meets a different arity or tag
than recorded is a hard error (nondeterminism the harness does not own).
"""


class ReplayDivergence(Exception):
    pass


class Chooser:
    def __init__(self, prefix=(), expect=None):
        self.prefix = list(prefix)
        self.expect = expect  # optional list of (k, tag) for the prefix
        self.trace = []  # (k, tag, choice)

    def choose(self, k, tag=""):
        if k <= 0:
            raise ValueError("choose() with empty support: %r" % (tag,))
        i = len(self.trace)
        if i < len(self.prefix):
            c = self.prefix[i]
            if c >= k:
                raise ReplayDivergence("choice %d out of range %d at point %d (%s)" % (c, k, i, tag))
            if self.expect is not None and i < len(self.expect) and tuple(self.expect[i]) != (k, tag):
                raise ReplayDivergence("point %d was %r, now %r" % (i, self.expect[i], (k, tag)))
        else:
            c = 0
        self.trace.append((k, tag, c))
        return c

    @property
    def choices(self):
        return [t[2] for t in self.trace]

    def deviations(self):
        return sum(1 for k, tag, c in self.trace if tag.startswith("dev:") and c != 0)


def explore(body, dev_bound=None, root=(), max_exec=None):
    """yield (chooser, observation) for every execution.  Sets explore.capped if max_exec was hit."""
    stack = [(list(root), None)]
    n = 0
    capped = False
    while stack:
        prefix, expect = stack.pop()
        ch = Chooser(prefix, expect)
        obs = body(ch)
        n += 1
        yield ch, obs
        if max_exec is not None and n >= max_exec:
            capped = bool(stack)
            break
        tr = ch.trace
        for i in range(len(tr) - 1, len(prefix) - 1, -1):
            k, tag, c = tr[i]
            if k <= 1:
                continue
            base = [t[2] for t in tr[:i]]
            if dev_bound is not None and tag.startswith("dev:"):
                used = sum(1 for kk, tt, cc in tr[:i] if tt.startswith("dev:") and cc != 0)
                if used + 1 > dev_bound:
                    continue
            exp = [(t[0], t[1]) for t in tr[: i + 1]]
            for alt in range(k - 1, 0, -1):
                stack.append((base + [alt], exp))
    explore.capped = capped


explore.capped = False
