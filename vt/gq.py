"""Bridges between graphiq objects and the reference models (this module imports graphiq)."""
import itertools
import numpy as np

import graphiq.circuit.ops as ops
from graphiq.circuit.circuit_dag import CircuitDAG
from graphiq.backends.stabilizer.clifford_tableau import CliffordTableau
from graphiq.backends.stabilizer.tableau import StabilizerTableau

from .ref import pauli as P
from .ref import statevec as sv

ONE = {"I": ops.Identity, "H": ops.Hadamard, "P": ops.Phase, "Pdag": ops.PhaseDagger,
       "X": ops.SigmaX, "Y": ops.SigmaY, "Z": ops.SigmaZ}
ONE_INV = {v: k for k, v in ONE.items()}
REF1 = {"I": "I", "H": "H", "P": "P", "Pdag": "P_dag", "X": "X", "Y": "Y", "Z": "Z"}


# ---- programs ------------------------------------------------------------------------
# letters (JSON-able lists):
#   ["1", name, rtype, reg]                 one-qubit gate
#   ["W", [names], rtype, reg]              OneQubitGateWrapper(list)   (matrix product of the list)
#   ["CNOT"|"CZ", ct, c, tt, t]
#   ["CCNOT"|"CCZ"|"MCR", ct, c, tt, t, creg]
#   ["MZ", rtype, reg, creg]

class SharedListMutated(Exception):
    pass


_WLISTS = {}


def shared_list(names):
    """graphiq's solvers build many wrappers from one shared list object (entries of one_qubit_ops); the harness does the same,
    so that code which mutates a wrapper's operations list in place corrupts its siblings here as it would there."""
    key = tuple(names)
    want = [ONE[x] for x in names]
    lst = _WLISTS.get(key)
    if lst is None:
        lst = _WLISTS[key] = list(want)
    elif lst != want:
        _WLISTS[key] = list(want)
        raise SharedListMutated("a wrapper's operations list %r was mutated in place to %r" % (list(names), [ONE_INV.get(c, str(c)) for c in lst]))
    return lst


def check_shared_lists():
    """None, or a description of a shared wrapper list that no longer holds what it was created with."""
    for key, lst in list(_WLISTS.items()):
        want = [ONE[x] for x in key]
        if lst != want:
            _WLISTS[key] = list(want)
            return "operations list %r became %r" % (list(key), [ONE_INV.get(c, str(c)) for c in lst])
    return None


def make_op(letter):
    k = letter[0]
    if k == "1":
        return ONE[letter[1]](register=letter[3], reg_type=letter[2])
    if k == "W":
        return ops.OneQubitGateWrapper(shared_list(letter[1]), register=letter[3], reg_type=letter[2])
    if k in ("CNOT", "CZ"):
        cls = ops.CNOT if k == "CNOT" else ops.CZ
        return cls(control=letter[2], control_type=letter[1], target=letter[4], target_type=letter[3])
    if k in ("CCNOT", "CCZ", "MCR"):
        cls = {"CCNOT": ops.ClassicalCNOT, "CCZ": ops.ClassicalCZ, "MCR": ops.MeasurementCNOTandReset}[k]
        return cls(control=letter[2], control_type=letter[1], target=letter[4], target_type=letter[3],
                   c_register=letter[5])
    if k == "MZ":
        return ops.MeasurementZ(register=letter[2], reg_type=letter[1], c_register=letter[3])
    raise ValueError(letter)


def build_circuit(layout, program):
    ne, npn, nc = layout
    c = CircuitDAG(n_emitter=ne, n_photon=npn, n_classical=nc)
    for letter in program:
        c.add(make_op(letter))
    return c


def op_to_letter(op):
    """letter of an (unwrapped or wrapped) graphiq operation object; None for Input/Output."""
    t = type(op)
    if t in (ops.Input, ops.Output):
        return None
    if t is ops.OneQubitGateWrapper:
        return ["W", [ONE_INV[o] for o in op.operations], op.reg_type, op.register]
    if t in ONE_INV:
        return ["1", ONE_INV[t], op.reg_type, op.register]
    if t in (ops.CNOT, ops.CZ):
        return ["CNOT" if t is ops.CNOT else "CZ", op.control_type, op.control, op.target_type, op.target]
    if t in (ops.ClassicalCNOT, ops.ClassicalCZ, ops.MeasurementCNOTandReset):
        nm = {ops.ClassicalCNOT: "CCNOT", ops.ClassicalCZ: "CCZ", ops.MeasurementCNOTandReset: "MCR"}[t]
        return [nm, op.control_type, op.control, op.target_type, op.target, op.c_register]
    if t is ops.MeasurementZ:
        return ["MZ", op.reg_type, op.register, op.c_register]
    raise ValueError("unknown op %r" % (t,))


def circuit_letters(circuit, unwrapped=False):
    return [l for l in (op_to_letter(o) for o in circuit.sequence(unwrapped=unwrapped)) if l is not None]


def unwrap_letters(program):
    """elementary letters in execution order (a wrapper's list is a matrix product: last listed acts first)."""
    out = []
    for l in program:
        if l[0] == "W":
            for nm in reversed(l[1]):
                out.append(["1", nm, l[2], l[3]])
        else:
            out.append(l)
    return out


def letter_qregs(letter):
    k = letter[0]
    if k in ("1", "W"):
        return [(letter[2], letter[3])]
    if k == "MZ":
        return [(letter[1], letter[2])]
    return [(letter[1], letter[2]), (letter[3], letter[4])]


def letter_cregs(letter):
    k = letter[0]
    if k in ("CCNOT", "CCZ", "MCR"):
        return [letter[5]]
    if k == "MZ":
        return [letter[3]]
    return []


def is_measuring(letter):
    return letter[0] in ("CCNOT", "CCZ", "MCR", "MZ")


def per_register(program):
    d = {}
    for i, l in enumerate(program):
        for r in letter_qregs(l):
            d.setdefault(("q",) + tuple(r), []).append(i)
        for c in letter_cregs(l):
            d.setdefault(("c", c), []).append(i)
    return d


def is_linear_extension(program, observed):
    """observed (list of letters) is a reordering of program that keeps every register's own order."""
    if sorted(map(repr, program)) != sorted(map(repr, observed)):
        return False
    pa, pb = per_register(program), per_register(observed)
    if set(pa) != set(pb):
        return False
    for k in pa:
        if [program[i] for i in pa[k]] != [observed[i] for i in pb[k]]:
            return False
    return True


def qindex(layout):
    ne, npn, nc = layout
    return lambda rtype, reg: reg if rtype == "p" else reg + npn


# ---- reference execution of elementary letters on an R1 vector -----------------------

def ref_apply(v, letter, qi, outcome=None):
    """apply one elementary letter to R1 vector v.  For measuring letters `outcome` must be given and
    possible; returns (v', (p0,p1) or None)."""
    k = letter[0]
    if k == "1":
        return sv.apply1(v, sv.ONE_QUBIT[REF1[letter[1]]], qi(letter[2], letter[3])), None
    if k == "CNOT":
        return sv.cnot(v, qi(letter[1], letter[2]), qi(letter[3], letter[4])), None
    if k == "CZ":
        return sv.cz(v, qi(letter[1], letter[2]), qi(letter[3], letter[4])), None
    if k == "MZ":
        q = qi(letter[1], letter[2])
        pr = sv.prob_z(v, q)
        return sv.project_z(v, q, outcome), pr
    c, t = qi(letter[1], letter[2]), qi(letter[3], letter[4])
    pr = sv.prob_z(v, c)
    v = sv.project_z(v, c, outcome)
    if outcome == 1:
        v = sv.apply1(v, sv.Z if k == "CCZ" else sv.X, t)
        if k == "MCR":
            v = sv.apply1(v, sv.X, c)  # reset: the measured qubit is left in |0>
    return v, pr


def ref_branches(layout, program, v0=None):
    """all outcome branches of a program by textbook semantics.
    returns list of (outcomes tuple, probability, final vector, classical record)."""
    ne, npn, nc = layout
    qi = qindex(layout)
    el = unwrap_letters(program)
    # iterative (a long circuit must not hit the interpreter's recursion limit); branch order = depth-first, outcome 0 first
    branches = [([], 1.0, sv.zero(ne + npn) if v0 is None else v0, [0] * nc)]
    for l in el:
        nxt = []
        for outs, pr, v, creg in branches:
            if not is_measuring(l):
                v2, _ = ref_apply(v, l, qi)
                nxt.append((outs, pr, v2, creg))
                continue
            q = qi(l[1], l[2])
            p = sv.prob_z(v, q)
            for o in (0, 1):
                if p[o] > 1e-9:
                    v2, _ = ref_apply(v, l, qi, o)
                    c2 = list(creg)
                    c2[letter_cregs(l)[0]] = o
                    nxt.append((outs + [o], pr * p[o], v2, c2))
        branches = nxt
        if len(branches) > 4096:
            raise ValueError("more than 4096 outcome branches")
    return [(tuple(o), pr, v, tuple(c)) for o, pr, v, c in branches]


def signature(layout, program):
    """canonical all-branch signature: sorted tuple of (outcomes, rounded prob, canonical ray)."""
    return tuple(sorted((o, round(p, 9), sv.canon_ray(v)) for o, p, v, c in ref_branches(layout, program)))


# ---- tableaux ------------------------------------------------------------------------

def rows_to_group(xm, zm, phase):
    n = xm.shape[1]
    gens = []
    for i in range(xm.shape[0]):
        x = z = 0
        ny = 0
        for q in range(n):
            xb, zb = int(xm[i, q]) & 1, int(zm[i, q]) & 1
            if xb:
                x |= 1 << q
            if zb:
                z |= 1 << q
            if xb and zb:
                ny += 1
        gens.append((x, z, (ny + 2 * (int(phase[i]) & 1)) & 3))
    return P.StabGroup(n, gens)


def tableau_group(tab):
    """stabilizer half of a CliffordTableau, or a StabilizerTableau, as an R2 group (signs included)."""
    if isinstance(tab, CliffordTableau):
        n = tab.n_qubits
        return rows_to_group(tab.table[n:, :n], tab.table[n:, n:], tab.phase[n:])
    n = tab.n_qubits
    return rows_to_group(tab.table[:, :n], tab.table[:, n:], tab.phase)


def tableau_invariant(tab):
    """None if the Clifford tableau is binary, symplectic and properly paired; else a description."""
    t = np.asarray(tab.table)
    n = tab.n_qubits
    if t.shape != (2 * n, 2 * n):
        return "table shape %r for n=%d" % (t.shape, n)
    if np.asarray(tab.phase).shape != (2 * n,):
        return "phase shape %r for n=%d" % (np.asarray(tab.phase).shape, n)
    if not np.all((t == 0) | (t == 1)):
        return "non-binary table entry"
    ph = np.asarray(tab.phase)
    if not np.all((ph == 0) | (ph == 1)):
        return "non-binary phase entry"
    x, z = t[:, :n].astype(int), t[:, n:].astype(int)
    sp = (x @ z.T + z @ x.T) % 2  # sp[i,j]=1 iff rows anticommute
    want = np.zeros((2 * n, 2 * n), dtype=int)
    for i in range(n):
        want[i, n + i] = want[n + i, i] = 1
    if not np.array_equal(sp, want):
        return "not symplectic / destabilizers not paired"
    ip = getattr(tab, "iphase", None)
    if ip is not None and np.any(np.asarray(ip)[n:] % 2):
        return "stabilizer generator carries an imaginary phase"
    return None


def group_to_stabilizer_tableau(group):
    n = group.n
    data = np.zeros((n, 2 * n), dtype=int)
    phase = np.zeros(n, dtype=int)
    for i, g in enumerate(group.gens):
        for q in range(n):
            data[i, q] = (g[0] >> q) & 1
            data[i, n + q] = (g[1] >> q) & 1
        phase[i] = 0 if P.sign_of(g) == 1 else 1
    return StabilizerTableau(data, phase)


def group_to_clifford_tableau(group, destab=None):
    """a valid CliffordTableau whose stabilizer half is exactly `group`'s generators; destabilizers found by
    GF(2) solving (any valid completion), unless given as list of Paulis."""
    n = group.n
    gens = group.gens
    if destab is None:
        destab = complete_destabilizers(group)
    table = np.zeros((2 * n, 2 * n), dtype=int)
    phase = np.zeros(2 * n, dtype=int)
    for i, g in enumerate(list(destab) + list(gens)):
        for q in range(n):
            table[i, q] = (g[0] >> q) & 1
            table[i, n + q] = (g[1] >> q) & 1
        phase[i] = 0 if P.sign_of(g) == 1 else 1
    return CliffordTableau(table, phase)


def complete_destabilizers(group):
    """destabilizers d_i (Hermitian, + sign): d_i anticommutes with g_i only, d's commute mutually."""
    n = group.n
    gens = group.gens
    # solve for d_i: symplectic product with g_j = delta_ij ; linear system over GF(2) in 2n unknowns
    ds = []
    for i in range(n):
        # unknown vector (x|z) as int of 2n bits ; constraints: <d,g_j>=delta_ij for all j ; <d,d_k>=0 for k<i
        rows = []
        for j, g in enumerate(gens):
            rows.append((g[1] | (g[0] << n), 1 if i == j else 0))  # <d,g> = d.x & g.z + d.z & g.x
        for d in ds:
            rows.append((d[1] | (d[0] << n), 0))
        sol = _solve_gf2(rows, 2 * n)
        assert sol is not None
        x, z = sol & ((1 << n) - 1), sol >> n
        ds.append((x, z, P.popcount(x & z) & 3))
    return ds


def _solve_gf2(rows, nvars):
    rows = [[a, b] for a, b in rows]
    piv = []
    r = 0
    for col in range(nvars):
        p = None
        for i in range(r, len(rows)):
            if (rows[i][0] >> col) & 1:
                p = i
                break
        if p is None:
            continue
        rows[r], rows[p] = rows[p], rows[r]
        for i in range(len(rows)):
            if i != r and (rows[i][0] >> col) & 1:
                rows[i][0] ^= rows[r][0]
                rows[i][1] ^= rows[r][1]
        piv.append(col)
        r += 1
    for i in range(r, len(rows)):
        if rows[i][0] == 0 and rows[i][1]:
            return None
    sol = 0
    for i, col in enumerate(piv):
        if rows[i][1]:
            sol |= 1 << col
    return sol


def nx_graph(n, edges, labels=None):
    import networkx as nx
    g = nx.Graph()
    labels = labels or list(range(n))
    g.add_nodes_from(labels)
    g.add_edges_from((labels[a], labels[b]) for a, b in edges)
    return g
