"""python -m vt.hsrun <module> <function> <json-arg-file> <json-out-file>
Runs one harness function in a fresh interpreter (used to vary PYTHONHASHSEED, which cannot be changed in-process)."""
import importlib
import json
import os
import sys


def main():
    modname, fn, argfile, outfile = sys.argv[1:5]
    sys.stdout = open(os.devnull, "w")
    import warnings
    warnings.filterwarnings("ignore")
    mod = importlib.import_module(modname)
    with open(argfile) as f:
        arg = json.load(f)
    res = getattr(mod, fn)(arg)
    with open(outfile, "w") as f:
        json.dump(res, f)


def launch(modname, fn, args_list, hashseeds, workdir):
    """run fn(arg) for every (hashseed, arg) in parallel subprocesses; returns {(hashseed, index): result}."""
    import subprocess
    os.makedirs(workdir, exist_ok=True)
    procs = []
    for hs in hashseeds:
        for i, arg in enumerate(args_list):
            a = os.path.join(workdir, "arg_%s_%d.json" % (hs, i))
            o = os.path.join(workdir, "out_%s_%d.json" % (hs, i))
            with open(a, "w") as f:
                json.dump(arg, f)
            env = dict(os.environ)
            env["PYTHONHASHSEED"] = str(hs)
            p = subprocess.Popen([sys.executable, "-W", "ignore", "-m", "vt.hsrun", modname, fn, a, o], env=env,
                                 stdout=subprocess.DEVNULL, stderr=subprocess.PIPE)
            procs.append((hs, i, p, o))
    out = {}
    for hs, i, p, o in procs:
        _, err = p.communicate()
        if p.returncode != 0:
            from .core import HarnessError
            raise HarnessError("hsrun %s.%s hashseed=%s failed:\n%s" % (modname, fn, hs, err.decode()[-2000:]))
        with open(o) as f:
            out[(hs, i)] = json.load(f)
    return out


if __name__ == "__main__":
    main()
