"""C01 - both back ends compute the state the circuit defines.

Engine A: every program of <= L letters over the alphabet on small register layouts (and solver circuits with
inserted letters), x {stabilizer, density matrix} x measurement setting {0, 1, probabilistic}; in probabilistic
mode every random draw is a chooser decision, so all outcome branches are executed.  Oracle: R1 state-vector
semantics followed in lock-step after every operation (observed through a spy on compile_one_gate).
"""
import itertools
import numpy as np

from .. import core, gq
from ..explore import explore
from ..env import Owned, UnownedRandomness
from ..ref import statevec as sv
from ..ref import pauli as P

ID = "C01"
META = {
    "engine": "A (stateless choice-tree explorer over programs x configurations x outcome branches)",
    "rule": "a case = (layout, program, backend, measurement setting, initial state, outcome branch); non-trivial = "
            "program contains an entangling or measuring operation; distinct = different (program, backend, "
            "setting, initial state, outcome string)",
    "bounds": {
        "quick": "layout (e,p,c)=(1,1,1): all programs L<=2 over the full 32-letter alphabet, L=3 over the 20-letter core; "
                 "(2,1,1),(1,2,2): L<=2 core; all words of <=4 one-qubit gates {H,P,X,Z} followed by each measuring operation; initial states S_1,S_2 with L<=1; time-reversed-solver circuits "
                 "of all graphs n<=3 + 1 inserted letter",
        "thorough": "(1,1,1): L<=3 full alphabet; 3-qubit layouts L<=2 full, L<=3 core; initial states L<=2; "
                    "solver circuits n<=4 + 1 insertion",
    },
    "assumptions": [
        "R1 gate matrices are the textbook ones (self-test); wrapper = matrix product of its list (C20)",
        "probabilities of explored circuits lie in {0} u [2^-8,1] (asserted), so eps=1e-9 classification is exact",
    ],
}
EPS = 1e-9
WRAPS = [["H", "P"], ["P", "H", "P", "X"], ["X", "I"]]


def qregs(layout):
    ne, npn, nc = layout
    return [("e", i) for i in range(ne)] + [("p", i) for i in range(npn)]


def alphabet(layout, full=True):
    ne, npn, nc = layout
    qs = qregs(layout)
    out = []
    names = ["I", "H", "P", "Pdag", "X", "Y", "Z"] if full else ["H", "P", "X"]
    for t, r in qs:
        for nm in names:
            out.append(["1", nm, t, r])
    for (t1, r1), (t2, r2) in itertools.permutations(qs, 2):
        out.append(["CNOT", t1, r1, t2, r2])
        if full or (t1, r1) < (t2, r2):
            out.append(["CZ", t1, r1, t2, r2])
    for (t1, r1), (t2, r2) in itertools.permutations(qs, 2):
        for c in range(nc):
            kinds = ("CCNOT", "CCZ", "MCR") if full else ("CCNOT", "MCR")
            for k in kinds:
                if not full and c > 0:
                    continue
                out.append([k, t1, r1, t2, r2, c])
    for t, r in qs:
        for c in range(nc):
            if full or c == nc - 1:
                out.append(["MZ", t, r, c])
    for t, r in qs:
        for w in (WRAPS if full else WRAPS[:1]):
            out.append(["W", w, t, r])
    return out


def programs(layout, L, full):
    al = alphabet(layout, full)
    for n in range(0, L + 1):
        for tup in itertools.product(al, repeat=n):
            yield list(tup)


# ---------------------------------------------------------------------------------------

def _compilers():
    from graphiq.backends.stabilizer.compiler import StabilizerCompiler
    from graphiq.backends.density_matrix.compiler import DensityMatrixCompiler
    return {"stab": StabilizerCompiler, "dm": DensityMatrixCompiler}


def initial_states(nq):
    """R2 groups of all stabilizer states on nq qubits (nq<=2)."""
    from ..ref import spaces
    return spaces.stabilizer_states(nq)


def make_initial(backend, group):
    from graphiq.state import QuantumState
    if backend == "stab":
        return QuantumState(gq.group_to_clifford_tableau(group), rep_type="s")
    return QuantumState(sv.dm(group.vector()), rep_type="dm")


def run_one(layout, program, backend, setting, init_idx, ch, circuit=None):
    """one execution under chooser ch; returns observation dict."""
    ne, npn, nc = layout
    comp = _compilers()[backend]()
    comp.measurement_determinism = setting
    if circuit is None:
        circuit = gq.build_circuit(layout, program)
    rec = []
    orig = comp.compile_one_gate

    def spy(state, op, n_quantum, q_index, classical_registers):
        before = np.array(classical_registers, copy=True)
        orig(state, op, n_quantum, q_index, classical_registers)
        data = state.rep_data.data
        snap = data.copy() if hasattr(data, "copy") else data
        rec.append((op, before, np.array(classical_registers, copy=True), snap))
    comp.compile_one_gate = spy
    init = None
    v0 = None
    if init_idx is not None:
        grp = initial_states(ne + npn)[init_idx]
        init = make_initial(backend, grp)
        v0 = grp.vector()
    with Owned(ch):
        final = comp.compile(circuit, initial_state=init) if init is not None else comp.compile(circuit)
    return {"rec": rec, "final": final, "v0": v0}


def check_execution(acc, case, obs):
    layout, program, backend, setting = case["layout"], case["program"], case["backend"], case["setting"]
    ne, npn, nc = layout
    n = ne + npn
    qi = gq.qindex(layout)
    rec = obs["rec"]
    observed = [l for l in (gq.op_to_letter(o) for o, _, _, _ in rec) if l is not None]
    want = gq.unwrap_letters(program)
    if not gq.is_linear_extension(want, observed):
        acc.violation("order", backend + ":compile", "not-a-linear-extension", case,
                      expected=want, observed=observed)
        return None
    v = sv.zero(n) if obs["v0"] is None else obs["v0"]
    outcomes = []
    creg_ref = [0] * nc
    for op, cb, ca, snap in rec:
        l = gq.op_to_letter(op)
        if l is None:
            continue
        acc.transitions += 1
        site = backend + ":" + l[0]
        if gq.is_measuring(l):
            q = qi(l[1], l[2])
            p = sv.prob_z(v, q)
            for x in p:
                if 1e-12 < x < 1e-6:
                    raise core.HarnessError("probability %g near threshold" % x)
            possible = [b for b in (0, 1) if p[b] > EPS]
            if setting == "probabilistic":
                admissible = possible
            elif setting == 0:
                admissible = [0] if 0 in possible else [1]
            else:
                admissible = [1] if 1 in possible else [0]
            c = gq.letter_cregs(l)[0]
            got = ca[c]
            rec_ok = any(abs(got - b) < 1e-12 for b in admissible)
            # find which admissible outcome the state followed
            followed = None
            for b in ([int(round(got))] if rec_ok else []) + admissible:
                if b not in admissible:
                    continue
                v2, _ = gq.ref_apply(v, l, qi, b)
                if state_matches(backend, snap, v2, n) is None:
                    followed = b
                    break
            if not rec_ok:
                acc.violation("record", site, "classical-register-not-written-with-outcome", case,
                              expected={"admissible": admissible, "p": p}, observed={"creg": ca.tolist(), "followed": followed})
            elif followed is not None and followed != int(round(got)):
                acc.violation("record", site, "record-differs-from-outcome-taken", case,
                              expected=followed, observed=float(got))
            if followed is None:
                acc.violation("state", site, "state-after-measuring-op-wrong", case,
                              expected={"admissible": admissible, "p": p,
                                        "setting": setting}, observed=describe(backend, snap))
                return None
            v, _ = gq.ref_apply(v, l, qi, followed)
            outcomes.append((core.jdump(l), followed))
            creg_ref[c] = followed
            # other classical registers untouched
            for j in range(nc):
                if j != c and abs(ca[j] - cb[j]) > 1e-12:
                    acc.violation("record", site, "other-classical-register-changed", case,
                                  expected=cb.tolist(), observed=ca.tolist())
        else:
            v, _ = gq.ref_apply(v, l, qi)
            bad = state_matches(backend, snap, v, n)
            if bad is not None:
                acc.violation("state", site, bad, case, expected=sv.canon_ray(v, 6), observed=describe(backend, snap))
                return None
            if not np.array_equal(ca, cb):
                acc.violation("record", site, "unitary-op-changed-classical-register", case,
                              expected=cb.tolist(), observed=ca.tolist())
    # final state object
    fin = obs["final"].rep_data.data
    bad = state_matches(backend, fin, v, n)
    if bad is not None:
        acc.violation("state", backend + ":final", bad, case, expected=sv.canon_ray(v, 6), observed=describe(backend, fin))
    acc.validated += 1
    return canon_outcomes(outcomes), v


def canon_outcomes(pairs):
    """outcome record of one execution, independent of the order in which operations on disjoint registers were executed: measuring operations
    are named by their letter and by their occurrence number among equal letters (equal letters share all registers, so their order is fixed)."""
    seen = {}
    out = []
    for letter, b in pairs:
        k = seen.get(letter, 0)
        seen[letter] = k + 1
        out.append((letter, k, int(b)))
    return tuple(sorted(out))


def state_matches(backend, data, v, n):
    """None if the implementation state equals the ray v; else symptom string."""
    if backend == "stab":
        inv = gq.tableau_invariant(data)
        if inv is not None:
            return "invalid-tableau: " + inv
        grp = gq.tableau_group(data)
        if not grp.stabilises(v):
            if P.StabGroup(n, grp.gens).same_up_to_signs(_group_of(v, n, grp)):
                return "stabilizer-sign-wrong"
            return "stabilizer-group-wrong"
        return None
    rho = np.asarray(data)
    if rho.shape != (2 ** n, 2 ** n):
        return "dm-shape"
    if not np.all(np.isfinite(rho)):
        return "dm-not-finite"
    if np.max(np.abs(rho - sv.dm(v))) > 1e-9:
        return "dm-differs"
    return None


def _group_of(v, n, grp):
    # helper for symptom classification only: does grp stabilise v up to signs?
    f = sv.flat(v)
    gens = []
    for g in grp.gens:
        m = P.matrix(g, n) @ f
        if np.linalg.norm(m + f) < 1e-9:
            gens.append((g[0], g[1], (g[2] + 2) & 3))
        elif np.linalg.norm(m - f) < 1e-9:
            gens.append(g)
        else:
            return P.StabGroup.zero(n).apply("H", 0) if False else P.StabGroup(n, [(0, 0, 1)] * n)
    return P.StabGroup(n, gens)


def describe(backend, data):
    if backend == "stab":
        try:
            return gq.tableau_group(data).strings()
        except Exception as e:
            return repr(e)
    return np.round(np.asarray(data), 6).tolist() if np.asarray(data).size <= 64 else "dm %r" % (np.asarray(data).shape,)


def nontrivial(program):
    return any(l[0] not in ("1", "W") for l in program)


def check_case(case, acc, circuit_factory=None):
    """explore every outcome branch of one (layout, program, backend, setting, init) case."""
    layout, program, backend, setting = case["layout"], case["program"], case["backend"], case["setting"]
    init_idx = case.get("init")
    seen_branches = set()

    def body(ch):
        try:
            circ = circuit_factory() if circuit_factory else None
            return run_one(layout, program, backend, setting, init_idx, ch, circuit=circ)
        except UnownedRandomness:
            acc.unowned += 1
            return None
        except core.HarnessError:
            raise
        except Exception as e:
            return e

    for ch, obs in explore(body, max_exec=4096):
        acc.evaluations += 1
        if obs is None:
            continue
        if isinstance(obs, Exception):
            acc.violation("raises", backend + ":compile", type(obs).__name__, case, expected="a state",
                          observed=repr(obs)[:300])
            continue
        res = check_execution(acc, case, obs)
        if res is not None:
            outs, v = res
            seen_branches.add(outs)
            acc.state((layout, backend, sv.canon_ray(v, 6), outs if setting == "probabilistic" else ()))
            if nontrivial(program):
                acc.nontriv((program, backend, str(setting), init_idx, outs))
    if explore.capped:
        acc.caps_hit += 1
    if setting == "probabilistic" and seen_branches and init_idx is None and not acc.viol:
        meas = [core.jdump(l) for l in gq.unwrap_letters(program) if gq.is_measuring(l)]
        want = {canon_outcomes(list(zip(meas, o))) for o, p, v, c in gq.ref_branches(layout, program)}
        if seen_branches != want:
            acc.violation("branches", backend + ":compile", "set-of-reachable-outcome-strings-differs", case,
                          expected=sorted(want), observed=sorted(seen_branches))


SETTINGS = [0, 1, "probabilistic"]


def shards(tier):
    out = []
    if tier == "quick":
        plan = [((1, 1, 1), 2, True), ((1, 1, 1), 3, False), ((2, 1, 1), 2, False), ((1, 2, 2), 2, False)]
        init_plan = [((1, 0, 1), 1), ((1, 1, 1), 1)]
        solver_n = 3
    else:
        plan = [((1, 1, 1), 3, True), ((2, 1, 1), 2, True), ((1, 2, 2), 2, True), ((2, 1, 1), 3, False),
                ((1, 2, 2), 3, False)]
        init_plan = [((1, 0, 1), 2), ((1, 1, 1), 2), ((0, 2, 1), 2)]
        solver_n = 4
    for layout, L, full in plan:
        al = alphabet(layout, full)
        if L >= 2:
            for i in range(len(al)):
                out.append({"kind": "prog", "layout": layout, "L": L, "full": full, "first": i})
            out.append({"kind": "prog", "layout": layout, "L": 1, "full": full, "first": None})
        else:
            out.append({"kind": "prog", "layout": layout, "L": L, "full": full, "first": None})
    # one-qubit words followed by one measuring operation: long enough for floating-point residues (p ~ 1e-34) to appear in the
    # density-matrix back end, where forced outcomes must still be decided by 0 / non-0
    for t in ("e", "p"):
        for first in ("H", "P", "X", "Y", "Z"):
            out.append({"kind": "words", "qubit": t, "first": first, "L": 4 if tier == "quick" else 5})
    for layout, L in init_plan:
        ninit = {1: 6, 2: 60}[layout[0] + layout[1]]
        for i in range(ninit):
            out.append({"kind": "init", "layout": layout, "L": L, "init": i})
    from ..ref import spaces
    for n in range(2, solver_n + 1):
        for g in spaces.all_graphs(n):
            if not spaces.has_isolated(n, g):
                out.append({"kind": "solver", "n": n, "edges": [list(e) for e in g]})
    return out


def run_shard(shard, tier, acc):
    kind = shard["kind"]
    if kind == "prog":
        layout = tuple(shard["layout"])
        al = alphabet(layout, shard["full"])
        L = shard["L"]
        if shard["first"] is None:
            progs = ([list(t) for n in range(0, min(L, 1) + 1) for t in itertools.product(al, repeat=n)])
        else:
            f = al[shard["first"]]
            progs = [[f] + list(t) for n in range(1, L) for t in itertools.product(al, repeat=n)]
        for prog in progs:
            for backend in ("stab", "dm"):
                for setting in SETTINGS:
                    case = {"layout": list(layout), "program": prog, "backend": backend, "setting": setting}
                    check_case(case, acc)
        if progs:
            acc.sample({"layout": list(layout), "program": progs[-1]})
    elif kind == "init":
        layout = tuple(shard["layout"])
        al = alphabet(layout, True)
        for n in range(0, shard["L"] + 1):
            for t in itertools.product(al, repeat=n):
                for backend in ("stab", "dm"):
                    for setting in SETTINGS:
                        case = {"layout": list(layout), "program": list(t), "backend": backend, "setting": setting,
                                "init": shard["init"]}
                        check_case(case, acc)
    elif kind == "words":
        layout = (1, 1, 1)
        t = shard["qubit"]
        o = "p" if t == "e" else "e"
        tails = [["MZ", t, 0, 0], ["CCNOT", t, 0, o, 0, 0], ["CCZ", t, 0, o, 0, 0], ["MCR", t, 0, o, 0, 0]]
        for n in range(0, shard["L"]):
            for w in itertools.product(("H", "P", "X", "Y", "Z") if n <= 2 else ("H", "P", "X", "Z"), repeat=n):
                word = [["1", shard["first"], t, 0]] + [["1", x, t, 0] for x in w]
                for tail in tails:
                    for prefix in ([], [["1", "H", o, 0]]):
                        prog = prefix + word + [tail]
                        for backend in ("stab", "dm"):
                            for setting in SETTINGS:
                                check_case({"layout": list(layout), "program": prog, "backend": backend, "setting": setting}, acc)
        acc.sample({"layout": list(layout), "program": prog})
    elif kind == "solver":
        run_solver_shard(shard, tier, acc)


def solver_program(n, edges):
    from graphiq.solvers.time_reversed_solver import TimeReversedSolver
    from graphiq.backends.stabilizer.compiler import StabilizerCompiler
    from graphiq.state import QuantumState
    from graphiq.metrics import Infidelity
    g = gq.nx_graph(n, [tuple(e) for e in edges])
    target = QuantumState(g, rep_type="g")
    comp = StabilizerCompiler()
    comp.measurement_determinism = 1
    solver = TimeReversedSolver(target=target, metric=Infidelity(target), compiler=comp)
    solver.solve()
    score, circ = solver.result
    layout = (circ.n_emitters, circ.n_photons, circ.n_classical)
    return layout, gq.circuit_letters(circ)


def run_solver_shard(shard, tier, acc):
    try:
        layout, base = solver_program(shard["n"], shard["edges"])
    except Exception as e:
        acc.refusal("solver raised " + type(e).__name__)
        return
    if layout[0] + layout[1] > 6:
        acc.refusal("solver circuit too wide for R1")
        return
    al = alphabet(layout, False)
    cases = [base] + [base[:pos] + [l] + base[pos:] for pos in range(len(base) + 1) for l in al]
    for prog in cases:
        for backend in ("stab", "dm"):
            for setting in SETTINGS:
                case = {"layout": list(layout), "program": prog, "backend": backend, "setting": setting}
                check_case(case, acc)
    acc.sample({"layout": list(layout), "program": base, "from_graph": shard["edges"]})


def replay_case(case, acc):
    check_case(case, acc)


PREDICATES = {}
