"""C02 - the time-reversed solver returns a circuit that generates the target exactly.

Engine A: every labelled graph on <= n vertices x input form x back end; for each returned circuit every combination
of mid-circuit measurement outcomes (explorer owns the draws) through both real compilers, against R1.
"""
import itertools
import numpy as np

from .. import core, gq, solverutil as su
from ..ref import statevec as sv, spaces
from . import c01

ID = "C02"
META = {
    "engine": "A (all targets x forms x back ends x all outcome branches)",
    "rule": "a case = (graph, input form, solver back end/setting); each is expanded over every outcome branch of the returned "
            "circuit on both compilers; non-trivial = target has an edge; distinct = distinct (graph, form, backend, branch)",
    "bounds": {"quick": "all labelled graphs n<=4 in forms g,g1,s,sx,dm with solver back end stab/dm x forced 0/1; n=5 form g, stabilizer back end; n=6: every 8th labelled graph (4096), form g, stabilizer back end; "
                        "all outcome branches on both compilers (dm when <=6 qubits)",
               "thorough": "n=5 all forms; n=6 graph form; dm compiler up to 8 qubits"},
    "assumptions": ["R1 state vectors up to 9 qubits", "score tolerance 1e-9"],
}


def shards(tier):
    out = []
    for n in range(1, 5):
        graphs = list(spaces.all_graphs(n))
        for i in range(0, len(graphs), 4):
            out.append({"n": n, "lo": i, "hi": min(len(graphs), i + 4), "forms": ["g", "g1", "s", "sx", "dm"], "backends": ["stab", "dm"]})
    step = 16
    if tier == "quick":
        for i in range(0, 1024, step):
            out.append({"n": 5, "lo": i, "hi": i + step, "forms": ["g"], "backends": ["stab"]})
        # every 8th labelled graph on 6 vertices (masks = 5 mod 8): 4096 targets, graph form, stabilizer back end, one setting
        for i in range(0, 32768, 1024):
            out.append({"n": 6, "lo": i, "hi": i + 1024, "forms": ["g"], "backends": ["stab"], "stride": 8, "offset": 5, "settings": [1]})
    else:
        for i in range(0, 1024, step):
            out.append({"n": 5, "lo": i, "hi": i + step, "forms": ["g", "sx", "dm"], "backends": ["stab", "dm"]})
        for i in range(0, 32768, 128):
            out.append({"n": 6, "lo": i, "hi": i + 128, "forms": ["g"], "backends": ["stab"]})
    return out


def isolated(case):
    return spaces.has_isolated(case["n"], [tuple(e) for e in case["edges"]])


PREDICATES = {"target_has_isolated_vertex": isolated}


def check_target(acc, n, edges, form, backend, setting, tier, seen=None):
    case = {"n": n, "edges": [list(e) for e in edges], "form": form, "backend": backend, "setting": setting}
    acc.evaluations += 1
    try:
        score, circ, solver = su.run_trs(n, edges, form, backend, setting)
    except Exception as e:
        import traceback
        tb = traceback.extract_tb(e.__traceback__)
        where = tb[-1].name if tb else "?"
        # the function the exception surfaced in goes into the observation, not into the key: a refactor may move it
        acc.violation("solve", "TimeReversedSolver.solve", "raises", case,
                      "a circuit", "%s in %s" % (repr(e)[:200], where))
        return
    try:
        circ.validate()
    except Exception as e:
        acc.violation("valid", "CircuitDAG.validate", "returned-circuit-invalid", case, "valid", repr(e)[:200])
        return
    if circ.n_photons != n:
        acc.violation("valid", "TimeReversedSolver.solve", "photon-count", case, n, circ.n_photons)
        return
    layout = (circ.n_emitters, circ.n_photons, circ.n_classical)
    prog = gq.circuit_letters(circ)
    nq = layout[0] + layout[1]
    if nq > 9:
        acc.refusal("circuit wider than 9 qubits")
        return
    if abs(score) > 1e-9:
        acc.violation("score", "TimeReversedSolver.solve", "score-not-zero", case, 0.0, float(score))
    pk = core.jdump([layout, prog])
    if seen is not None:
        if pk in seen:
            acc.count("circuit_already_checked")
            return
        seen.add(pk)
    want = su.target_vector(n, edges, layout[0])
    branches = gq.ref_branches(layout, prog)
    acc.transitions += len(branches) * len(prog)
    ok = True
    for outs, p, v, creg in branches:
        if not sv.same_ray(v, want):
            ok = False
            acc.violation("generates", "TimeReversedSolver.solve", "branch-does-not-end-in-target", dict(case, outcomes=list(outs)),
                          "|G>|0..0>", {"overlap": sv.overlap2(v, want), "program": prog})
            break
        acc.state((n, tuple(map(tuple, edges)), outs))
        if edges:
            acc.nontriv((n, tuple(map(tuple, edges)), form, backend, setting, outs))
    # both real compilers, every branch (lock-step with R1 as in C01)
    comp_backends = ["stab"] + (["dm"] if nq <= (6 if tier == "quick" else 8) else [])
    for cb in comp_backends:
        sub = core.Acc(ID, findings=[], predicates={})
        c01.check_case({"layout": list(layout), "program": prog, "backend": cb, "setting": "probabilistic"}, sub,
                       circuit_factory=lambda: circ.copy())
        acc.evaluations += sub.evaluations
        acc.transitions += sub.transitions
        acc.validated += sub.validated
        acc.caps_hit += sub.caps_hit
        acc.unowned += sub.unowned
        for (key, fid), slot in sub.viol.items():
            ex = slot["examples"][0]
            acc.violation("compile:" + ex["sub"], ex["site"], ex["symptom"], dict(case, compiler=cb), ex["expected"], ex["observed"])


def run_shard(shard, tier, acc):
    n = shard["n"]
    pairs = list(itertools.combinations(range(n), 2))
    for mask in range(shard["lo"], shard["hi"]):
        if shard.get("stride") and mask % shard["stride"] != shard["offset"]:
            continue
        edges = [p for i, p in enumerate(pairs) if (mask >> i) & 1]
        seen = set()
        for form in shard["forms"]:
            if form == "dm" and n > 5:
                continue
            for backend in shard["backends"]:
                for setting in shard.get("settings", (0, 1)):
                    check_target(acc, n, edges, form, backend, setting, tier, seen)
    acc.sample({"n": n, "edges": [list(e) for e in edges], "forms": shard["forms"]})


def replay_case(case, acc):
    check_target(acc, case["n"], [tuple(e) for e in case["edges"]], case["form"], case["backend"], case["setting"], "quick")
