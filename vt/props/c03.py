"""C03 - height function = bipartite entanglement; the solver's emitter budget is its maximum.

Engine A: every generating set of every stabilizer state n<=3 x every cut; every labelled graph n<=6 x every cut;
solver on every graph n<=5/6.  Oracle: log2 Schmidt rank of the R1 vector / GF(2) cut rank (R3).
"""
import itertools
import numpy as np

from .. import core, gq, solverutil as su
from ..ref import statevec as sv, pauli as P, spaces, gf2

ID = "C03"
META = {
    "engine": "A (exhaustive input enumeration)",
    "rule": "a case = (generating set | graph) with all its cuts, or one solver target; non-trivial = some cut has entropy > 0; "
            "distinct = distinct generating sets / graphs",
    "bounds": {"quick": "all 181 806 presentations n<=3; all graphs n<=5 through the four height entry points; solver + emitter_sorted on all graphs n<=5; 5 qubits: every 2nd of the 32768 states H_A(I|Gamma) for 4 Hadamard subsets A",
               "thorough": "+ all graphs n=6 (32768) for heights and solver; S_4 canonical + single row additions; 5 qubits: all Gamma x all 32 subsets (every 5-qubit stabilizer state up to signs)"},
    "assumptions": ["Schmidt rank computed by numpy SVD with threshold 1e-9 (singular values of stabilizer states are 0 or 2^-k/2)"],
}


def schmidt_heights(v, n):
    f = sv.flat(v)
    out = []
    for k in range(n):
        m = f.reshape(2 ** (k + 1), -1)
        s = np.linalg.svd(m, compute_uv=False)
        r = int(np.sum(s > 1e-9))
        out.append(int(round(np.log2(r))))
    return out


def group_heights(grp):
    """entropy of cut {0..k} | rest for a stabilizer group: rank(S restricted to A) - |A|  (R3)."""
    n = grp.n
    out = []
    for k in range(n):
        mask = (1 << (k + 1)) - 1
        rows = [(g[0] & mask) | ((g[1] & mask) << n) for g in grp.gens]
        out.append(gf2.rank(rows) - (k + 1))
    return out


def graph_heights(n, edges):
    return [gf2.cut_rank(n, edges, range(k + 1)) for k in range(n)]


def shards(tier):
    out = []
    for n in (1, 2):
        out.append({"kind": "pres", "n": n, "lo": 0, "hi": {1: 6, 2: 60}[n]})
    for a in range(0, 1080, 30):
        out.append({"kind": "pres", "n": 3, "lo": a, "hi": a + 30})
    gmax = 5 if tier == "quick" else 6
    for n in range(1, gmax + 1):
        ng = 1 << (n * (n - 1) // 2)
        for a in range(0, ng, 256):
            out.append({"kind": "graphs", "n": n, "lo": a, "hi": min(ng, a + 256)})
        for a in range(0, ng, 32):
            out.append({"kind": "solver", "n": n, "lo": a, "hi": min(ng, a + 32)})
    # 5 qubits: states H_A (I | Gamma) (every 5-qubit stabilizer state up to signs has this form), heights against GF(2) cut entropies
    for A in ((3, 12, 21, 30) if tier == "quick" else tuple(range(32))):
        for a in range(0, 1 << 15, 1 << 13):
            out.append({"kind": "lag5", "A": A, "lo": a, "hi": a + (1 << 13), "step": 2 if tier == "quick" else 1})
    if tier == "thorough":
        for a in range(0, 36720, 720):
            out.append({"kind": "s4", "lo": a, "hi": a + 720})
    for n in ((9, 11, 12) if tier == "quick" else (9, 10, 11, 12, 13, 16)):
        out.append({"kind": "big", "n": n})
    for n in (3, 4, 5):
        out.append({"kind": "mutate", "n": n})
    return out


def check_heights(acc, xm, zm, want, case):
    from graphiq.backends.stabilizer.functions.height import height_func_list
    acc.evaluations += 1
    acc.transitions += 1
    xin, zin = xm.copy(), zm.copy()
    try:
        got = [int(h) for h in height_func_list(xm, zm)]
    except Exception as e:
        acc.violation("height", "height_func_list", "raises-" + type(e).__name__, case, want, repr(e)[:200])
        return
    if got != want:
        acc.violation("height", "height_func_list", "height-differs-from-entropy", case, want, got)
    acc.validated += 1


def run_shard(shard, tier, acc):
    kind = shard["kind"]
    if kind == "lag5":
        from .c11 import lagrangian
        for mask in range(shard["lo"], shard["hi"], shard["step"]):
            grp = lagrangian(5, mask, shard["A"], mask & 31)
            want = group_heights(grp)
            tab = gq.group_to_stabilizer_tableau(grp)
            check_heights(acc, tab.x_matrix.copy(), tab.z_matrix.copy(), want, {"n": 5, "gens": grp.strings()})
            acc.state((5, tuple(want)))
            if any(want):
                acc.nontriv_fast(tuple(grp.gens))
        acc.sample({"n": 5, "gens": grp.strings(), "heights": want})
        return
    if kind == "pres":
        n = shard["n"]
        st = spaces.stabilizer_states(n)
        for i in range(shard["lo"], min(shard["hi"], len(st))):
            want = schmidt_heights(st[i].vector(), n)
            if want != group_heights(st[i]):
                raise core.HarnessError("reference entropies disagree (SVD vs GF(2))")
            for grp in spaces.presentations(st[i]):
                tab = gq.group_to_stabilizer_tableau(grp)
                check_heights(acc, tab.x_matrix.copy(), tab.z_matrix.copy(), want, {"n": n, "gens": grp.strings()})
                if any(want):
                    acc.nontriv(tuple(grp.gens))
            acc.state((n, tuple(want)))
        acc.sample({"n": n, "gens": grp.strings(), "heights": want})
    elif kind == "s4":
        st = spaces.stabilizer_states(4)
        for i in range(shard["lo"], min(shard["hi"], len(st))):
            s = st[i]
            want = group_heights(s)
            pres = [s]
            for a, b in itertools.permutations(range(4), 2):
                gens = list(s.gens)
                gens[a] = P.mul(gens[a], gens[b])
                pres.append(P.StabGroup(4, gens))
            for grp in pres:
                tab = gq.group_to_stabilizer_tableau(grp)
                check_heights(acc, tab.x_matrix.copy(), tab.z_matrix.copy(), want, {"n": 4, "gens": grp.strings()})
                if any(want):
                    acc.nontriv(tuple(grp.gens))
            acc.state((4, tuple(want)))
    elif kind == "graphs":
        from graphiq.backends.stabilizer.functions.height import height_function, height_dict, height_max
        from graphiq.utils.relabel_module import emitter_sorted
        n = shard["n"]
        pairs = list(itertools.combinations(range(n), 2))
        adjs, wants = [], []
        for mask in range(shard["lo"], shard["hi"]):
            edges = [p for i, p in enumerate(pairs) if (mask >> i) & 1]
            case = {"n": n, "edges": [list(e) for e in edges]}
            want = graph_heights(n, edges)
            if n <= 4 and want != schmidt_heights(sv.graph_state(n, edges), n):
                raise core.HarnessError("reference entropies disagree (cut rank vs SVD)")
            adj = np.array(__import__("vt.ref.graphs", fromlist=["x"]).adjacency(n, edges), dtype=int).reshape(n, n)
            check_heights(acc, np.eye(n, dtype=int), adj.copy(), want, case)
            g = gq.nx_graph(n, edges)
            try:
                acc.evaluations += 3
                hd = height_dict(graph=g)
                exp = {-1: 0}
                exp.update({k: want[k] for k in range(n)})
                if {k: int(v) for k, v in hd.items()} != exp:
                    acc.violation("height", "height_dict", "dict-differs", case, exp, {k: int(v) for k, v in hd.items()})
                hm = height_max(graph=g)
                if int(hm) != max(want):
                    acc.violation("height", "height_max", "max-differs", case, max(want), int(hm))
                for k in (0, n // 2, n - 1):
                    hk = height_function(np.eye(n, dtype=int), adj.copy(), k)
                    if int(hk) != want[k]:
                        acc.violation("height", "height_function", "value-differs", dict(case, k=k), want[k], int(hk))
            except Exception as e:
                acc.violation("height", "height_dict/height_max", "raises-" + type(e).__name__, case, want, repr(e)[:200])
            adjs.append(adj)
            wants.append(max(want))
            acc.state((n, tuple(want)))
            if any(want):
                acc.nontriv((n, mask))
        # emitter_sorted on the chunk
        for a in range(0, len(adjs), 8):
            chunk = adjs[a:a + 8]
            acc.evaluations += 1
            try:
                res = emitter_sorted(np.array(chunk))
                vals = [int(x[1]) for x in res]
                ok = vals == sorted(vals) and len(res) == len(chunk)
                for adj_r, ne in res:
                    idx = [i for i, c in enumerate(chunk) if np.array_equal(c, adj_r)]
                    if not idx or int(ne) != wants[a + idx[0]]:
                        ok = False
                if not ok:
                    acc.violation("emitter_sorted", "emitter_sorted", "wrong-counts-or-order", {"n": n, "first_mask": shard["lo"] + a},
                                  sorted(wants[a:a + 8]), vals)
            except Exception as e:
                acc.violation("emitter_sorted", "emitter_sorted", "raises-" + type(e).__name__, {"n": n, "first_mask": shard["lo"] + a},
                              "a list", repr(e)[:200])
        acc.sample(case)
    elif kind == "big":
        # structured graphs with two-digit vertex labels, several vertex orders (reference = GF(2) cut rank, any n)
        from graphiq.backends.stabilizer.functions.height import height_dict, height_max
        from graphiq.utils.relabel_module import emitter_sorted
        n = shard["n"]
        fams = {
            "path": [(i, i + 1) for i in range(n - 1)],
            "cycle": [(i, i + 1) for i in range(n - 1)] + [(0, n - 1)],
            "star": [(0, i) for i in range(1, n)],
            "ladder": [(i, i + 2) for i in range(n - 2)] + [(i, i + 1) for i in range(0, n - 1, 2)],
            "bipartite": [(i, j) for i in range(n // 2) for j in range(n // 2, n) if (i + j) % 3],
            "pseudo": [(i, j) for i in range(n) for j in range(i + 1, n) if (i * i + 3 * j + i * j) % 5 == 1],
        }
        orders = {"identity": list(range(n)), "reversed": list(range(n))[::-1], "interleaved": list(range(0, n, 2)) + list(range(1, n, 2))}
        for fname, e0 in fams.items():
            for oname, perm in orders.items():
                edges = sorted((min(perm[a], perm[b]), max(perm[a], perm[b])) for a, b in e0)
                want = graph_heights(n, edges)
                case = {"n": n, "family": fname, "order": oname, "edges": [list(e) for e in edges]}
                adj = np.zeros((n, n), dtype=int)
                for a, b in edges:
                    adj[a, b] = adj[b, a] = 1
                check_heights(acc, np.eye(n, dtype=int), adj.copy(), want, case)
                acc.evaluations += 2
                try:
                    g = gq.nx_graph(n, edges)
                    hd = {k: int(v) for k, v in height_dict(graph=g).items()}
                    exp = {-1: 0}
                    exp.update({k: want[k] for k in range(n)})
                    if hd != exp:
                        acc.violation("height", "height_dict", "dict-differs", case, exp, hd)
                    if int(height_max(graph=gq.nx_graph(n, edges))) != max(want):
                        acc.violation("height", "height_max", "max-differs", case, max(want), int(height_max(graph=gq.nx_graph(n, edges))))
                    res = emitter_sorted(np.array([adj]))
                    if int(res[0][1]) != max(want):
                        acc.violation("emitter_sorted", "emitter_sorted", "wrong-counts-or-order", case, max(want), int(res[0][1]))
                except Exception as e:
                    acc.violation("height", "height_dict/height_max", "raises-" + type(e).__name__, case, want, repr(e)[:200])
                acc.nontriv(("big", n, fname, oname))
                acc.state((n, tuple(want)))
        acc.sample(case)
    elif kind == "mutate":
        # one graph object queried, mutated and queried again (history on a shared object): answers must follow the graph
        from graphiq.backends.stabilizer.functions.height import height_dict, height_max
        n = shard["n"]
        pairs = list(itertools.combinations(range(n), 2))
        for start in range(0, 1 << len(pairs), max(1, (1 << len(pairs)) // 24)):
            if shard.get("only_start") not in (None, start):
                continue
            g = gq.nx_graph(n, [p for i, p in enumerate(pairs) if (start >> i) & 1])
            cur = set(p for i, p in enumerate(pairs) if (start >> i) & 1)
            hist = []
            for step, p in enumerate(pairs + pairs[::-1]):
                if p in cur:
                    g.remove_edge(*p); cur.discard(p); hist.append(["remove", list(p)])
                else:
                    g.add_edge(*p); cur.add(p); hist.append(["add", list(p)])
                want = graph_heights(n, sorted(cur))
                case = {"n": n, "start_mask": start, "history": hist[-6:], "edges_now": [list(e) for e in sorted(cur)]}
                acc.evaluations += 1
                acc.transitions += 1
                try:
                    hd = {k: int(v) for k, v in height_dict(graph=g).items()}
                    exp = {-1: 0}
                    exp.update({k: want[k] for k in range(n)})
                    if hd != exp or int(height_max(graph=g)) != max(want):
                        acc.violation("height", "height_dict", "stale-or-wrong-after-graph-mutation", case, exp, hd)
                        break
                except Exception as e:
                    acc.violation("height", "height_dict", "raises-" + type(e).__name__, case, want, repr(e)[:200])
                    break
            acc.nontriv(("mutate", n, start))
    elif kind == "solver":
        n = shard["n"]
        pairs = list(itertools.combinations(range(n), 2))
        for mask in range(shard["lo"], shard["hi"]):
            edges = [p for i, p in enumerate(pairs) if (mask >> i) & 1]
            check_solver(acc, n, edges)
        acc.sample({"n": n, "edges": [list(e) for e in edges], "solver": True})


def check_solver(acc, n, edges):
    import graphiq.circuit.ops as ops
    from graphiq.solvers.time_reversed_solver import TimeReversedSolver
    case = {"n": n, "edges": [list(e) for e in edges]}
    want = max(graph_heights(n, edges))
    acc.evaluations += 1
    acc.transitions += 1
    try:
        tab = gq.group_to_stabilizer_tableau(P.graph_group(n, edges))
        ne = int(TimeReversedSolver.determine_n_emitters(tab))
        if ne != want:
            acc.violation("emitters", "determine_n_emitters", "not-max-height", case, want, ne)
    except Exception as e:
        acc.violation("emitters", "determine_n_emitters", "raises-" + type(e).__name__, case, want, repr(e)[:200])
    try:
        score, circ, solver = su.run_trs(n, edges, "g", "stab", 1)
    except Exception as e:
        import traceback
        tb = traceback.extract_tb(e.__traceback__)
        acc.violation("solve", "TimeReversedSolver.solve", "raises", case,
                      "a circuit", "%s in %s" % (repr(e)[:200], tb[-1].name if tb else "?"))
        return
    if circ.n_emitters != want:
        acc.violation("emitters", "TimeReversedSolver.solve", "circuit-emitter-count-not-max-height", case, want, circ.n_emitters)
    emis = {p: 0 for p in range(n)}
    for l in gq.circuit_letters(circ):
        if l[0] == "CNOT" and l[1] == "e" and l[3] == "p":
            emis[l[4]] += 1
        elif l[0] in ("CNOT", "CZ") and "p" in (l[1], l[3]):
            emis[-1] = emis.get(-1, 0) + 1
    if any(v != 1 for k, v in emis.items() if k >= 0) or emis.get(-1):
        acc.violation("emission", "TimeReversedSolver.solve", "photon-not-emitted-exactly-once", case, "1 emission CNOT per photon", emis)
    acc.validated += 1
    acc.state(("solver", n, circ.n_emitters))
    if want:
        acc.nontriv(("solver", n, tuple(map(tuple, edges))))


def isolated(case):
    return spaces.has_isolated(case["n"], [tuple(e) for e in case["edges"]])


PREDICATES = {"target_has_isolated_vertex": isolated}


def replay_case(case, acc):
    if "gens" in case:
        grp = P.StabGroup.from_strings(case["gens"])
        tab = gq.group_to_stabilizer_tableau(grp)
        check_heights(acc, tab.x_matrix.copy(), tab.z_matrix.copy(), group_heights(grp), case)
    elif "first_mask" in case:
        run_shard({"kind": "graphs", "n": case["n"], "lo": case["first_mask"], "hi": min(case["first_mask"] + 8, 1 << (case["n"] * (case["n"] - 1) // 2))}, "quick", acc)
    elif "family" in case:
        run_shard({"kind": "big", "n": case["n"]}, "quick", acc)
    elif "start_mask" in case:
        run_shard({"kind": "mutate", "n": case["n"], "only_start": case["start_mask"]}, "quick", acc)
    else:
        n, edges = case["n"], [tuple(e) for e in case["edges"]]
        pairs = list(itertools.combinations(range(n), 2))
        mask = sum(1 << pairs.index(e) for e in edges)
        run_shard({"kind": "graphs", "n": n, "lo": mask, "hi": mask + 1}, "quick", acc)
        check_solver(acc, n, edges)
