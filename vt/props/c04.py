"""C04 - generated and mutated circuits respect the photonic emission constraints.

Engine B: explicit-state search over mutation histories.  Initial states: time-reversed-solver circuits of every graph
n<=4 and every evolutionary initialisation (all emission / measurement assignments); transitions: the six mutation moves of
the evolutionary / hybrid solvers, each expanded over every answer of its random draws (the explorer owns np.random).
"""
import itertools
import numpy as np
import networkx as nx

from .. import core, gq, solverutil as su
from ..explore import explore, Chooser
from ..env import Owned
from ..ref import spaces
from .c12 import wire_edges, Broken

ID = "C04"
META = {
    "engine": "B (explicit-state BFS over mutation histories; every random answer of every move enumerated)",
    "rule": "state = circuit reached by a mutation history (key = per-register sequence of operation class, Fixed label and partner register); transition = one move with one "
            "combination of answers to its random draws; non-trivial = the move changed the circuit; distinct = distinct (state key, move, answers)",
    "bounds": {"quick": "initial: solver circuits of all graphs n<=4 without isolated vertex + all initialisations for (photons,emitters) in {(2,1),(3,1),(3,2)}; depth 2 with all 24 Cliffords at "
                        "depth 1 and 3 representative Cliffords afterwards; depth 3 from the (2,1) and (3,2) initialisations",
               "thorough": "depth 3 from all initial states, depth 4 from the initialisations"},
    "assumptions": ["which single-qubit Clifford a wrapper holds does not influence which moves are enabled nor the structural invariant (all 24 are taken at depth 1 to test this)",
                    "node ids are stable under the moves (a Fixed node is recognised by id, class and registers)"],
}
MOVES = ["add_emitter_one_qubit_op", "add_emitter_cnot", "replace_photon_one_qubit_op", "add_photon_one_qubit_op", "remove_op",
         "add_measurement_cnot_and_reset"]
REPS = [0, 3, 23]


# ---- initial circuits -------------------------------------------------------------------
_INIT_CACHE = {}
_SOLVER = {}


def solver_for(n_emitter, n_photon, narrow):
    key = (n_emitter, n_photon, narrow)
    if key not in _SOLVER:
        from graphiq.solvers.evolutionary_solver import EvolutionarySolver
        from graphiq.state import QuantumState
        from graphiq.metrics import Infidelity
        tgt = QuantumState(gq.nx_graph(n_photon, [(i, i + 1) for i in range(n_photon - 1)]), rep_type="g")
        tgt.convert_representation("s")
        s = EvolutionarySolver(target=tgt, metric=Infidelity(tgt), compiler=su.compiler("stab", 1), n_emitter=n_emitter, n_photon=n_photon)
        if narrow:
            probs = [0.0] * 24
            for r in REPS:
                probs[r] = 1.0
            s.update_emitter_one_qubit_gate_probs(probs)
            s.update_photonic_one_qubit_gate_probs(probs)
        _SOLVER[key] = s
    return _SOLVER[key]


def init_circuit(desc):
    """desc: ('trs', n, edges) | ('evo', n_photon, n_emitter, answers)"""
    key = repr(desc)
    if key not in _INIT_CACHE:
        if desc[0] == "trs":
            score, circ, solver = su.run_trs(desc[1], [tuple(e) for e in desc[2]])
        else:
            s = solver_for(desc[2], desc[1], False)
            with Owned(Chooser(list(desc[3]))):
                ea = s.get_emission_assignment(desc[1], desc[2])
                ma = s.get_measurement_assignment(desc[1], desc[2])
            circ = s.initialization(ea, ma)
        _INIT_CACHE[key] = circ
    return _INIT_CACHE[key].copy()


def evo_inits():
    out = []
    for npn, ne in ((2, 1), (3, 1), (3, 2)):
        s = solver_for(ne, npn, False)

        def body(ch):
            with Owned(ch):
                ea = s.get_emission_assignment(npn, ne)
                ma = s.get_measurement_assignment(npn, ne)
            return (tuple(ea), tuple(ma))
        for ch, obs in explore(body):
            out.append(("evo", npn, ne, tuple(ch.choices)))
    return out


def build(blob):
    desc, hist = blob
    circ = init_circuit(desc)
    for move, answers in hist:
        apply_move(circ, move, Chooser(list(answers)), narrow=True)
    return circ


def apply_move(circ, move, ch, narrow):
    s = solver_for(circ.n_emitters, circ.n_photons, narrow)
    import warnings
    with warnings.catch_warnings():
        warnings.simplefilter("ignore")
        with Owned(ch):
            getattr(s, move)(circ)


# ---- invariant ----------------------------------------------------------------------------

def fixed_nodes(circ):
    import graphiq.circuit.ops as ops
    out = {}
    for n, d in circ.dag.nodes(data=True):
        op = d["op"]
        if "Fixed" in op.labels and isinstance(op, (ops.CNOT, ops.MeasurementCNOTandReset)):
            out[n] = (type(op).__name__, tuple(op.q_registers), tuple(op.q_registers_type))
    return out


def invariant(circ, fixed0):
    import graphiq.circuit.ops as ops
    try:
        circ.validate()
    except Exception as e:
        return "validate-fails", repr(e)[:200]
    if not nx.is_directed_acyclic_graph(circ.dag):
        return "cycle", None
    for n, d in circ.dag.nodes(data=True):
        op = d["op"]
        if len(op.q_registers) == 2 and tuple(op.q_registers_type) == ("p", "p"):
            return "two-qubit-operation-between-photons", gq.op_to_letter(op)
        if not isinstance(op, (ops.Input, ops.Output)):
            # the operation sits on exactly the wires of the registers it names
            want = sorted("%s%d" % (t, r) for r, t in zip(op.q_registers, op.q_registers_type))
            ik = sorted(k for _, _, k in circ.dag.in_edges(n, keys=True) if not str(k).startswith("c"))
            ok = sorted(k for _, _, k in circ.dag.out_edges(n, keys=True) if not str(k).startswith("c"))
            if ik != want or ok != want:
                return "operation-not-on-the-wires-of-its-registers", {"op": gq.op_to_letter(op), "in": ik, "out": ok}
    for r in range(circ.n_photons):
        try:
            path = wire_edges(circ, "p", r)
        except Broken as e:
            return "photon-wire-broken", str(e)
        nodes = [e[1] for e in path[:-1]]
        if not nodes:
            return "photon-never-emitted", r
        first = circ.dag.nodes[nodes[0]]["op"]
        if not (type(first) is ops.CNOT and first.control_type == "e" and first.target_type == "p" and first.target == r):
            return "photon-first-operation-is-not-its-emission", gq.op_to_letter(first)
        for nd in nodes[1:]:
            op = circ.dag.nodes[nd]["op"]
            if isinstance(op, ops.OneQubitOperationBase):
                continue
            if isinstance(op, ops.ClassicalControlledPairOperationBase) and op.target_type == "p" and op.target == r and op.control_type == "e":
                continue
            return "photon-touched-by-forbidden-operation-after-emission", gq.op_to_letter(op)
    now = fixed_nodes(circ)
    for n, sig in fixed0.items():
        if now.get(n) != sig:
            return "fixed-operation-removed-or-changed", {"node": str(n), "was": sig, "now": now.get(n)}
    return None


def state_key(circ):
    import graphiq.circuit.ops as ops
    num = {}
    rows = []
    for t, cnt in (("e", circ.n_emitters), ("p", circ.n_photons)):
        for r in range(cnt):
            row = []
            try:
                path = wire_edges(circ, t, r)
            except Broken:
                return ("broken", id(circ))
            for e in path[:-1]:
                nd = e[1]
                op = circ.dag.nodes[nd]["op"]
                if nd not in num:
                    num[nd] = len(num)
                row.append((num[nd], type(op).__name__, "Fixed" in op.labels))
            rows.append(tuple(row))
    return hash((circ.n_emitters, circ.n_photons, tuple(rows)))


def initial_states(tier):
    out = []
    seen = set()
    descs = []
    for n in range(2, 5):
        for g in spaces.all_graphs(n):
            if not spaces.has_isolated(n, g):
                descs.append(("trs", n, tuple(tuple(e) for e in g)))
    descs += evo_inits()
    for d in descs:
        circ = init_circuit(d)
        k = state_key(circ)
        if k in seen:
            continue
        seen.add(k)
        out.append((("init", k), (d, ())))
    return out


_DEPTH_LIMIT = {}


def expand(blob, tier, acc):
    desc, hist = blob
    base = build(blob)
    fixed0 = fixed_nodes(init_circuit(desc))
    if not hist:
        bad = invariant(base, fixed0)
        acc.evaluations += 1
        if bad is not None:
            acc.violation("initial", "solver-output" if desc[0] == "trs" else "initialization", bad[0], {"init": _jd(desc), "history": []}, "constraints hold", bad[1])
            return []
    # depth policy
    limit = _DEPTH_LIMIT.get("limit", 2)
    deep = _DEPTH_LIMIT.get("deep", 3)
    maxd = deep if (desc[0] == "evo" and (tier == "thorough" or desc[1:3] in ((2, 1), (3, 2)))) else limit
    if tier == "thorough" and desc[0] == "trs":
        maxd = 3
    if len(hist) >= maxd:
        return []
    narrow = len(hist) >= 1
    res = []
    k0 = state_key(base)
    for move in MOVES:
        def body(ch, move=move):
            c = base.copy()
            try:
                apply_move(c, move, ch, narrow)
            except Exception as e:
                return ("exc", e, c)
            return ("ok", None, c)
        for ch, (status, exc, c) in explore(body, max_exec=5000):
            acc.evaluations += 1
            acc.transitions += 1
            answers = tuple(ch.choices)
            case = {"init": _jd(desc), "history": [[m, list(a)] for m, a in hist], "move": move, "answers": list(answers)}
            if status == "exc":
                bad = invariant(c, fixed0)
                if bad is not None or state_key(c) != k0:
                    acc.violation("move", move, "raises-%s-and-leaves-circuit-changed" % type(exc).__name__, case, "unchanged or valid", repr(exc)[:200])
                else:
                    acc.violation("move", move, "raises-" + type(exc).__name__, case, "a mutated circuit", repr(exc)[:200])
                continue
            bad = invariant(c, fixed0)
            if bad is not None:
                acc.violation("invariant", move, bad[0], case, "emission constraints hold", bad[1])
                continue
            acc.validated += 1
            k = state_key(c)
            if k != k0:
                acc.nontriv_fast((k0, move, answers))
            # successor replayed with the narrowed Clifford distribution: translate a depth-1 answer list is not possible in general,
            # so depth-1 successors are only expanded when their Clifford answer is one of the representatives
            if not narrow:
                ok, ans2 = _translate(move, base, answers)
                if not ok:
                    continue
                answers = ans2
            res.append((("s", desc[0], desc[1:3] if desc[0] == "evo" else None, k, len(hist) + 1 >= limit),
                        (desc, hist + ((move, answers),))))
        if explore.capped:
            acc.caps_hit += 1
    return res


def _translate(move, base, answers):
    """map answers given under the full 24-Clifford distribution to answers under the 3-representative distribution
    (only possible when the Clifford answer is a representative); moves without a Clifford draw are unchanged."""
    c = base.copy()
    rec = Chooser(list(answers))
    apply_move(c, move, rec, narrow=False)
    out = []
    for (k, tag, ans) in rec.trace:
        if tag == "np.choice" and k == 24:
            if ans not in REPS:
                return False, None
            out.append(REPS.index(ans))
        else:
            out.append(ans)
    # verify by replay
    c2 = base.copy()
    apply_move(c2, move, Chooser(list(out)), narrow=True)
    if state_key(c2) != state_key(c):
        raise core.HarnessError("answer translation changed the successor")
    return True, tuple(out)


def _jd(desc):
    return [list(x) if isinstance(x, tuple) else x for x in desc]


def run(tier, seed):
    from .. import bfs
    _DEPTH_LIMIT["limit"] = 2
    _DEPTH_LIMIT["deep"] = 3 if tier == "quick" else 4
    total = bfs.search("vt.props.c04", tier, max_depth=_DEPTH_LIMIT["deep"], chunk=4)
    total.counters["bfs_frontier_exhausted"] = 0
    total.sample({"init": ["evo", 2, 1, []], "history": [["add_emitter_one_qubit_op", [0, 1]], ["remove_op", [0]]]})
    return total


def replay_case(case, acc):
    d = case["init"]
    desc = tuple(tuple(tuple(y) if isinstance(y, list) else y for y in x) if isinstance(x, list) else x for x in d)
    hist = tuple((m, tuple(a)) for m, a in case["history"])
    base = build((desc, hist))
    fixed0 = fixed_nodes(init_circuit(desc))
    if "move" not in case:
        bad = invariant(base, fixed0)
        if bad:
            acc.violation("initial", "solver-output", bad[0], case, "constraints hold", bad[1])
        return
    c = base.copy()
    try:
        apply_move(c, case["move"], Chooser(list(case["answers"])), narrow=len(hist) >= 1)
    except Exception as e:
        acc.violation("move", case["move"], "raises-" + type(e).__name__, case, "a mutated circuit", repr(e)[:200])
        return
    bad = invariant(c, fixed0)
    if bad:
        acc.violation("invariant", case["move"], bad[0], case, "emission constraints hold", bad[1])


PREDICATES = {}
