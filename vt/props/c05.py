"""C05 - stabilizer state comparison and fidelity are exact.

Engine A: all ordered pairs of stabilizer states (complete for n<=2 with all pairs of generating sets; n=3 against a
60-state family / all pairs in thorough), canonical form over all 181 806 presentations.  Oracle: |<a|b>|^2 from R2 vectors.
"""
import itertools
import numpy as np

from .. import core, gq
from ..ref import statevec as sv, pauli as P, spaces

ID = "C05"
META = {
    "engine": "A (exhaustive input enumeration)",
    "rule": "a case = ordered pair of presented states (or one presentation for the canonical form); non-trivial = the two "
            "states differ and are not orthogonal, or differ only by generator signs; distinct = distinct ordered pairs of generating sets",
    "bounds": {"quick": "S_1,S_2: all ordered pairs x all pairs of generating sets; S_3: all 1080 states x 120 reference states both orders; "
                        "canonical_form on all presentations n<=3; __eq__ and Infidelity on all pairs of S_2; 5 qubits: every 4th of the 32768 states H_A(I|Gamma) for A in {3,12} against 8 reference states, both orders",
               "thorough": "+ all 1 166 400 ordered pairs of S_3; alternative destabilizer completions for S_2; 5 qubits: all 32768 Gamma x all 32 Hadamard subsets (every 5-qubit state up to signs) against 8 reference states"},
    "assumptions": ["fidelity values are compared with tolerance 1e-9 (true values are 0 or 2^-k)"],
}


def shards(tier):
    out = [{"kind": "pairs", "n": 1, "lo": 0, "hi": 6}]
    for a in range(0, 60, 4):
        out.append({"kind": "pairs", "n": 2, "lo": a, "hi": a + 4})
    for a in range(0, 1080, 45):
        out.append({"kind": "s3ref", "lo": a, "hi": a + 45})
    for n in (1, 2):
        out.append({"kind": "canon", "n": n, "lo": 0, "hi": {1: 6, 2: 60}[n]})
    for a in range(0, 1080, 30):
        out.append({"kind": "canon", "n": 3, "lo": a, "hi": a + 30})
    for a in range(0, 60, 6):
        out.append({"kind": "eq", "lo": a, "hi": a + 6})
    # 5 qubits: states H_A (I | Gamma) (every 5-qubit stabilizer state up to signs has this form) against 8 reference states, both argument orders
    for A in ((3, 12) if tier == "quick" else tuple(range(32))):
        for a in range(0, 1 << 15, 1 << 12):
            out.append({"kind": "lag5", "A": A, "lo": a, "hi": a + (1 << 12), "step": 4 if tier == "quick" else 1})
    if tier == "thorough":
        for a in range(0, 1080, 12):
            out.append({"kind": "s3all", "lo": a, "hi": a + 12})
        for a in range(0, 60, 6):
            out.append({"kind": "destab", "lo": a, "hi": a + 6})
    return out


_VEC = {}


def vec(n, i):
    if (n, i) not in _VEC:
        _VEC[(n, i)] = spaces.stabilizer_states(n)[i].vector()
    return _VEC[(n, i)]


def fid_check(acc, ga, gb, va, vb, case, ta=None, tb=None):
    from graphiq.backends.stabilizer.functions.metric import fidelity, inner_product
    acc.evaluations += 1
    acc.transitions += 1
    want = sv.overlap2(va, vb)
    ta = ta if ta is not None else gq.group_to_clifford_tableau(ga)
    tb = tb if tb is not None else gq.group_to_clifford_tableau(gb)
    snap = (ta.table.copy(), ta.phase.copy(), tb.table.copy(), tb.phase.copy())
    try:
        f = fidelity(ta, tb)
    except Exception as e:
        acc.violation("fidelity", "metric.fidelity", "raises-" + type(e).__name__, case, want, repr(e)[:200])
        return
    if not (np.array_equal(snap[0], ta.table) and np.array_equal(snap[1], ta.phase) and np.array_equal(snap[2], tb.table)
            and np.array_equal(snap[3], tb.phase)):
        acc.violation("fidelity", "metric.fidelity", "input-tableau-modified", case, "unchanged", "changed")
    if abs(f - want) > 1e-9:
        sym = "fidelity-wrong"
        if want < 1e-12 and ga.same_up_to_signs(gb):
            sym = "sign-only-difference-not-orthogonal"
        acc.violation("fidelity", "metric.fidelity", sym, case, want, float(f))
    acc.validated += 1
    acc.state((round(want, 9), ga.n))
    if 1e-9 < want < 1 - 1e-9 or (want < 1e-9 and ga.same_up_to_signs(gb)):
        acc.nontriv((tuple(ga.gens), tuple(gb.gens)))
    return f


def run_shard(shard, tier, acc):
    from graphiq.backends.stabilizer.functions.metric import fidelity, inner_product
    from graphiq.backends.stabilizer.functions.stabilizer import canonical_form
    kind = shard["kind"]
    if kind == "pairs":
        n = shard["n"]
        st = spaces.stabilizer_states(n)
        pres = {i: list(spaces.presentations(s)) for i, s in enumerate(st)}
        tabs = {}
        for i in range(shard["lo"], shard["hi"]):
            for j in range(len(st)):
                for a, ga in enumerate(pres[i]):
                    for b, gb in enumerate(pres[j]):
                        case = {"n": n, "a": ga.strings(), "b": gb.strings()}
                        if (i, a) not in tabs:
                            tabs[(i, a)] = gq.group_to_clifford_tableau(ga)
                        if (j, b) not in tabs:
                            tabs[(j, b)] = gq.group_to_clifford_tableau(gb)
                        f1 = fid_check(acc, ga, gb, vec(n, i), vec(n, j), case, tabs[(i, a)], tabs[(j, b)])
                # inner product modulus once per pair
                try:
                    ip = inner_product(tabs[(i, 0)], tabs[(j, 0)])
                    if abs(abs(ip) ** 2 - sv.overlap2(vec(n, i), vec(n, j))) > 1e-9:
                        acc.violation("inner", "metric.inner_product", "modulus-wrong", {"n": n, "a": st[i].strings(), "b": st[j].strings()},
                                      sv.overlap2(vec(n, i), vec(n, j)) ** 0.5, float(abs(ip)))
                except Exception as e:
                    acc.violation("inner", "metric.inner_product", "raises-" + type(e).__name__,
                                  {"n": n, "a": st[i].strings(), "b": st[j].strings()}, "a number", repr(e)[:200])
        acc.sample(case)
    elif kind == "lag5":
        from .c11 import lagrangian
        n = 5
        fixed = [P.StabGroup.zero(n), lagrangian(n, 0, 31), P.graph_group(n, [(0, q) for q in range(1, n)]), P.graph_group(n, [(q, q + 1) for q in range(n - 1)]),
                 lagrangian(n, 0b101100111000101, 5, 0b00110)]
        fixed = [(g, g.vector()) for g in fixed]
        for mask in range(shard["lo"], shard["hi"], shard["step"]):
            ga = lagrangian(n, mask, shard["A"])
            va = ga.vector()
            ta = gq.group_to_clifford_tableau(ga)
            flipped = P.StabGroup(n, [ga.gens[0][:2] + ((ga.gens[0][2] + 2) & 3,)] + list(ga.gens[1:]))
            refs = fixed + [(ga.copy(), va), (flipped, flipped.vector()), (lagrangian(n, mask, shard["A"] ^ 1), None)]
            for gb, vb in refs:
                vb = gb.vector() if vb is None else vb
                tb = gq.group_to_clifford_tableau(gb)
                fid_check(acc, ga, gb, va, vb, {"n": n, "a": ga.strings(), "b": gb.strings()}, ta, tb)
                fid_check(acc, gb, ga, vb, va, {"n": n, "a": gb.strings(), "b": ga.strings()}, tb, ta)
        acc.sample({"n": n, "a": ga.strings(), "b": gb.strings()})
    elif kind in ("s3ref", "s3all"):
        st = spaces.stabilizer_states(3)
        if kind == "s3ref":
            refs = []
            for s in spaces.stabilizer_states(2):
                t = s.tensor(P.StabGroup.zero(1))
                refs.append(t)
                refs.append(t.copy().apply("H", 2).apply("CNOT", 2, 0).apply("P", 1).apply("CZ", 1, 2))
            ref_items = [(r, r.vector()) for r in refs]
        else:
            ref_items = [(s, vec(3, k)) for k, s in enumerate(st)]
        for i in range(shard["lo"], min(shard["hi"], 1080)):
            ga, va = st[i], vec(3, i)
            ta = gq.group_to_clifford_tableau(ga)
            for gb, vb in ref_items:
                tb = gq.group_to_clifford_tableau(gb)
                case = {"n": 3, "a": ga.strings(), "b": gb.strings()}
                f1 = fid_check(acc, ga, gb, va, vb, case, ta, tb)
                if kind == "s3ref":
                    case2 = {"n": 3, "a": gb.strings(), "b": ga.strings()}
                    f2 = fid_check(acc, gb, ga, vb, va, case2, tb, ta)
                    if f1 is not None and f2 is not None and abs(f1 - f2) > 1e-9:
                        acc.violation("fidelity", "metric.fidelity", "not-symmetric", case, float(f1), float(f2))
        acc.sample(case)
    elif kind == "canon":
        n = shard["n"]
        st = spaces.stabilizer_states(n)
        for i in range(shard["lo"], min(shard["hi"], len(st))):
            forms = {}
            for grp in spaces.presentations(st[i]):
                acc.evaluations += 1
                acc.transitions += 1
                tab = gq.group_to_stabilizer_tableau(grp)
                try:
                    c = canonical_form(tab.copy())
                except Exception as e:
                    acc.violation("canonical", "canonical_form", "raises-" + type(e).__name__, {"n": n, "gens": grp.strings()},
                                  "a tableau", repr(e)[:200])
                    continue
                k = (c.table.astype(int).tobytes(), c.phase.astype(int).tobytes())
                forms.setdefault(k, grp)
                cg = gq.tableau_group(c)
                if not cg.same_state(grp):
                    acc.violation("canonical", "canonical_form", "canonical-form-is-another-state", {"n": n, "gens": grp.strings()},
                                  grp.strings(), cg.strings())
                acc.validated += 1
                acc.nontriv(tuple(grp.gens))
            if len(forms) > 1:
                ex = list(forms.values())[:2]
                acc.violation("canonical", "canonical_form", "depends-on-generating-set", {"n": n, "a": ex[0].strings(), "b": ex[1].strings(), "check": "canonical"},
                              "one form per state", len(forms))
            for k in forms:
                acc.state(("canon", n, core.h64(k[0] + k[1])))
                acc.counters["canon_forms_n%d" % n] += 1
        acc.sample({"n": n, "state": st[i].strings()})
    elif kind == "eq":
        from graphiq.backends.stabilizer.state import Stabilizer
        from graphiq.state import QuantumState
        from graphiq.metrics import Infidelity
        n = 2
        st = spaces.stabilizer_states(n)
        pres = {i: list(spaces.presentations(s)) for i, s in enumerate(st)}
        for i in range(shard["lo"], shard["hi"]):
            for j in range(len(st)):
                ga = pres[i][(i + j) % 6]
                gb = pres[j][(2 * i + j + 1) % 6]
                case = eq_case(acc, ga, gb, i == j, 1 - sv.overlap2(vec(n, i), vec(n, j)))
                acc.nontriv(("eq", tuple(ga.gens), tuple(gb.gens)))
                acc.state(("eq", i == j))
        acc.sample(case)
    elif kind == "destab":
        # alternative destabilizer completions: multiply destabilizer d_i by stabilizers (keeps validity when done consistently)
        n = 2
        st = spaces.stabilizer_states(n)
        for i in range(shard["lo"], shard["hi"]):
            ga = st[i]
            base = gq.complete_destabilizers(ga)
            alts = []
            # d_i -> d_i * g_i (always valid), d_0 -> d_0 g_1 & d_1 -> d_1 g_0 (valid pair)
            for m in range(8):
                d = list(base)
                if m & 1:
                    d[0] = P.mul(d[0], ga.gens[0])
                if m & 2:
                    d[1] = P.mul(d[1], ga.gens[1])
                if m & 4:
                    d[0] = P.mul(d[0], ga.gens[1])
                    d[1] = P.mul(d[1], ga.gens[0])
                d = [x if P.is_hermitian(x) else (x[0], x[1], (x[2] + 1) & 3) for x in d]
                for sg in itertools.product((0, 2), repeat=2):
                    alts.append([(x[0], x[1], (x[2] + s) & 3) for x, s in zip(d, sg)])
            for j in range(len(st)):
                gb = st[j]
                tb = gq.group_to_clifford_tableau(gb)
                for d in alts:
                    ta = gq.group_to_clifford_tableau(ga, destab=d)
                    if gq.tableau_invariant(ta) is not None:
                        raise core.HarnessError("bad destabilizer completion built by harness")
                    case = {"n": n, "a": ga.strings(), "b": gb.strings(), "destab_a": [P.to_string(x, n) for x in d]}
                    fid_check(acc, ga, gb, vec(n, i), vec(n, j), case, ta, tb)
                    fid_check(acc, gb, ga, vec(n, j), vec(n, i), dict(case, swapped=True), tb, ta)


def eq_case(acc, ga, gb, same, want):
    from graphiq.backends.stabilizer.state import Stabilizer
    from graphiq.state import QuantumState
    from graphiq.metrics import Infidelity
    case = {"n": ga.n, "a": ga.strings(), "b": gb.strings(), "check": "eq"}
    acc.evaluations += 2
    sa = Stabilizer(gq.group_to_clifford_tableau(ga))
    sb = Stabilizer(gq.group_to_clifford_tableau(gb))
    try:
        eq = bool(sa == sb)
        if eq != (same):
            acc.violation("eq", "Stabilizer.__eq__", "equality-wrong", case, same, eq)
    except Exception as e:
        acc.violation("eq", "Stabilizer.__eq__", "raises-" + type(e).__name__, case, same, repr(e)[:200])
    try:
        tgt = QuantumState(gq.group_to_clifford_tableau(ga), rep_type="s")
        stt = QuantumState(gq.group_to_clifford_tableau(gb), rep_type="s")
        inf = Infidelity(tgt).evaluate(stt, None)
        if abs(inf - want) > 1e-9:
            acc.violation("infidelity", "Infidelity.evaluate", "infidelity-wrong", case, want, float(inf))
        if not gq.tableau_group(stt.rep_data.data).same_state(gb) or not gq.tableau_group(tgt.rep_data.data).same_state(ga):
            acc.violation("infidelity", "Infidelity.evaluate", "input-state-changed", case, "unchanged", "changed")
    except Exception as e:
        acc.violation("infidelity", "Infidelity.evaluate", "raises-" + type(e).__name__, case, want, repr(e)[:200])
    acc.validated += 1
    return case


def replay_case(case, acc):
    ga = P.StabGroup.from_strings(case["a"]) if "a" in case else None
    if "gens" in case:
        from graphiq.backends.stabilizer.functions.stabilizer import canonical_form
        grp = P.StabGroup.from_strings(case["gens"])
        c = canonical_form(gq.group_to_stabilizer_tableau(grp))
        if not gq.tableau_group(c).same_state(grp):
            acc.violation("canonical", "canonical_form", "canonical-form-is-another-state", case, grp.strings(), gq.tableau_group(c).strings())
        return
    gb = P.StabGroup.from_strings(case["b"])
    if case.get("check") == "canonical":
        from graphiq.backends.stabilizer.functions.stabilizer import canonical_form
        ca, cb = (canonical_form(gq.group_to_stabilizer_tableau(g)) for g in (ga, gb))
        if not (np.array_equal(ca.table, cb.table) and np.array_equal(ca.phase, cb.phase)):
            acc.violation("canonical", "canonical_form", "depends-on-generating-set", case, "one form per state", 2)
        return
    if case.get("check") == "eq":
        eq_case(acc, ga, gb, ga.same_state(gb), 1 - sv.overlap2(ga.vector(), gb.vector()))
        return
    if case.get("swapped"):
        ga, gb = gb, ga
    fid_check(acc, ga, gb, ga.vector(), gb.vector(), case)


PREDICATES = {}
