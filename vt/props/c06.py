"""C06 - noisy simulation is physical, back-end independent and switchable.

Engine A: every measurement-free program of <= 2 operations over an 8-letter alphabet on one emitter + one photon, x every assignment of
noise models from a finite menu to its operations (constructor path and assign_noise(map) path), x back end in {density matrix, stabilizer
mixture} x noise_simulation on/off x mixture reduction on/off.  Oracle: R1 density matrices with textbook channels.
"""
import itertools
import numpy as np

from .. import core, gq, solverutil as su
from ..ref import statevec as sv, pauli as P

ID = "C06"
META = {
    "engine": "A (exhaustive programs x noise assignments x back ends x switches)",
    "rule": "a case = (program, noise assignment, path, back end, switches); non-trivial = some operation carries a noise model of non-zero strength; distinct = distinct cases",
    "bounds": {"quick": "all programs of <= 2 letters over 11 letters on (1 emitter, 1 photon); noise menu of 11 one-qubit choices (depolarizing 0/.25/1, Pauli X/Y/Z, loss 0/.25/1, before/after) "
                        "+ 4 mixed control/target choices + 3 per-gate wrapper lists; constructor path on both back ends; assign_noise path with 6-entry maps",
               "thorough": "programs of <= 3 letters with a 6-choice menu; layout (2,1)"},
    "assumptions": ["domain D1: circuits without measurements (for measurements inside noisy circuits the two back ends define different post-selection conventions; not demanded here)",
                    "noise strengths from {0, 0.25, 0.5, 1}"],
}
LAYOUT = (1, 1, 0)
LETTERS = [["1", "H", "e", 0], ["1", "P", "e", 0], ["1", "X", "p", 0], ["1", "H", "p", 0], ["CNOT", "e", 0, "p", 0], ["CZ", "e", 0, "p", 0],
           ["W", ["H", "P"], "e", 0], ["W", ["X", "I"], "p", 0], ["1", "Pdag", "e", 0], ["1", "Y", "p", 0], ["1", "Z", "e", 0]]
# noise descriptor: None | ["dep", p, after] | ["pauli", "X", after] | ["loss", l, after]
MENU1 = [None, ["dep", 0.25, True], ["dep", 0.25, False], ["dep", 1.0, True], ["dep", 0.0, True], ["pauli", "X", True], ["pauli", "Z", False],
         ["pauli", "Y", True], ["loss", 0.25, True], ["loss", 1.0, False], ["loss", 0.0, True]]
MIXED2 = [[["dep", 0.25, True], ["dep", 0.5, False]], [["dep", 0.25, False], ["pauli", "X", True]], [["loss", 0.25, True], None], [None, ["pauli", "Z", False]]]
WLISTS = [[["dep", 0.25, True], None], [None, ["pauli", "X", True]], [["pauli", "Z", False], ["dep", 0.5, True]]]


_NOISE_POOL = {}


def make_noise(d, slot=None):
    """noise object for descriptor d.  With a slot, the object is taken from a pool and *re-parameterised in place* (strength and
    placement written into noise_parameters), as a parameter sweep over one circuit would do: a model that caches anything
    derived from its parameters then shows up as a stale value in a later case."""
    import graphiq.noise.noise_models as nm
    if d is None:
        return nm.NoNoise()
    kind, val, after = d
    if slot is not None and kind in ("dep", "loss"):
        key = (kind, slot)
        n = _NOISE_POOL.get(key)
        if n is None:
            n = _NOISE_POOL[key] = nm.DepolarizingNoise(val) if kind == "dep" else nm.PhotonLoss(val)
        n.noise_parameters["Depolarizing probability" if kind == "dep" else "loss rate"] = val
        n.noise_parameters["After gate"] = after
        return n
    if kind == "dep":
        n = nm.DepolarizingNoise(val)
    elif kind == "pauli":
        n = nm.PauliError(val)
    else:
        n = nm.PhotonLoss(val)
    n.noise_parameters["After gate"] = after
    return n


def make_noisy_op(letter, nd, slot=None):
    """nd: descriptor (one-qubit / wrapper scalar), or [d_control, d_target], or ("list", [d...]) for wrappers.
    slot: position of the operation in its program (noise objects are then pooled per (kind, slot, sub-position))."""
    import graphiq.circuit.ops as ops
    op = gq.make_op(letter)
    k = letter[0]

    def sl(j):
        return None if slot is None else (slot, j)
    if k in ("CNOT", "CZ"):
        pair = nd if (isinstance(nd, list) and len(nd) == 2 and (nd[0] is None or isinstance(nd[0], list))) else [nd, nd]
        op.noise = [make_noise(pair[0], sl(0)), make_noise(pair[1], sl(1))]
    elif k == "W" and isinstance(nd, tuple):
        op.noise = [make_noise(x, sl(j)) for j, x in enumerate(nd[1])]
    elif k == "W":
        op.noise = make_noise(nd, sl(0)) if nd is not None else [make_noise(None) for _ in letter[1]]
    else:
        op.noise = make_noise(nd, sl(0))
    return op


def noise_choices(letter):
    k = letter[0]
    if k in ("CNOT", "CZ"):
        return list(MENU1) + [m for m in MIXED2]
    if k == "W":
        return list(MENU1) + [("list", w) for w in WLISTS]
    return list(MENU1)


# ---- reference --------------------------------------------------------------------------

def ref_channel(rho, n, q, d):
    if d is None:
        return rho
    kind, val, after = d
    if kind == "dep":
        return sv.dm_depolarize(rho, n, q, val)
    if kind == "pauli":
        return sv.dm_apply1(rho, n, sv.PAULI[val], q)
    return (1 - val) * rho


def ref_gate(rho, n, letter, qi):
    k = letter[0]
    if k == "1":
        return sv.dm_apply1(rho, n, sv.ONE_QUBIT[gq.REF1[letter[1]]], qi(letter[2], letter[3]))
    if k == "CNOT":
        return sv.dm_apply(rho, sv.dm_cnot_matrix(n, qi(letter[1], letter[2]), qi(letter[3], letter[4])))
    if k == "CZ":
        return sv.dm_apply(rho, sv.dm_cz_matrix(n, qi(letter[1], letter[2]), qi(letter[3], letter[4])))
    raise ValueError(letter)


def ref_run(layout, program, noises, noise_on):
    n = layout[0] + layout[1]
    qi = gq.qindex(layout)
    rho = sv.dm(sv.zero(n))
    for letter, nd in zip(program, noises):
        k = letter[0]
        if not noise_on:
            nd = None
        if k in ("CNOT", "CZ"):
            pair = nd if (isinstance(nd, list) and len(nd) == 2 and (nd[0] is None or isinstance(nd[0], list))) else [nd, nd]
            qs = [qi(letter[1], letter[2]), qi(letter[3], letter[4])]
            for d, q in zip(pair, qs):
                if d is not None and not d[2]:
                    rho = ref_channel(rho, n, q, d)
            rho = ref_gate(rho, n, letter, qi)
            for d, q in zip(pair, qs):
                if d is not None and d[2]:
                    rho = ref_channel(rho, n, q, d)
        elif k == "W":
            q = qi(letter[2], letter[3])
            names = letter[1]
            if isinstance(nd, tuple):
                per = nd[1]
                # the wrapper is the matrix product of its list: the last listed gate acts first, each with its own noise
                for nm_, d in reversed(list(zip(names, per))):
                    if d is not None and not d[2]:
                        rho = ref_channel(rho, n, q, d)
                    rho = sv.dm_apply1(rho, n, sv.ONE_QUBIT[gq.REF1[nm_]], q)
                    if d is not None and d[2]:
                        rho = ref_channel(rho, n, q, d)
            else:
                if nd is not None and not nd[2]:
                    rho = ref_channel(rho, n, q, nd)
                for nm_ in reversed(names):
                    rho = sv.dm_apply1(rho, n, sv.ONE_QUBIT[gq.REF1[nm_]], q)
                if nd is not None and nd[2]:
                    rho = ref_channel(rho, n, q, nd)
        else:
            q = qi(letter[2], letter[3])
            if nd is not None and not nd[2]:
                rho = ref_channel(rho, n, q, nd)
            rho = ref_gate(rho, n, letter, qi)
            if nd is not None and nd[2]:
                rho = ref_channel(rho, n, q, nd)
    return rho


def survival(noises, program, noise_on):
    if not noise_on:
        return 1.0
    s = 1.0

    def one(d):
        return (1 - d[1]) if (d is not None and d[0] == "loss") else 1.0
    for letter, nd in zip(program, noises):
        if isinstance(nd, tuple):
            for d in nd[1]:
                s *= one(d)
        elif isinstance(nd, list) and len(nd) == 2 and (nd[0] is None or isinstance(nd[0], list)):
            s *= one(nd[0]) * one(nd[1])
        elif letter[0] in ("CNOT", "CZ"):
            s *= one(nd) ** 2
        else:
            s *= one(nd)
    return s


def mixture_dm(mix, n):
    rho = np.zeros((2 ** n, 2 ** n), dtype=complex)
    tot = 0.0
    for p, t in mix:
        bad = gq.tableau_invariant(t)
        if bad:
            return None, None, "invalid tableau in mixture: " + bad
        rho = rho + p * sv.dm(gq.tableau_group(t).vector())
        tot += p
    return rho, tot, None


def build_real(layout, ops_list):
    from graphiq.circuit.circuit_dag import CircuitDAG
    circ = CircuitDAG(n_emitter=layout[0], n_photon=layout[1], n_classical=layout[2])
    for op in ops_list:
        circ.add(op)
    return circ


def run_real(layout, ops_list, backend, noise_on, reduce_flag):
    import graphiq.noise.noise_models as nm
    from graphiq.circuit.circuit_dag import CircuitDAG
    circ = CircuitDAG(n_emitter=layout[0], n_photon=layout[1], n_classical=layout[2])
    for op in ops_list:
        circ.add(op)
    return compile_real(circ, backend, noise_on, reduce_flag)


def compile_real(circ, backend, noise_on, reduce_flag):
    import graphiq.noise.noise_models as nm
    comp = su.compiler("dm" if backend == "dm" else "stab", 1)
    comp.noise_simulation = noise_on
    old = nm.REDUCE_STABILIZER_MIXTURE
    nm.REDUCE_STABILIZER_MIXTURE = reduce_flag
    try:
        return comp.compile(circ)
    finally:
        nm.REDUCE_STABILIZER_MIXTURE = old


def check_state(acc, st, backend, n, want, surv, case, site):
    rd = st.rep_data
    if backend == "dm":
        rho = np.asarray(rd.data)
        if rho.shape != want.shape or not np.all(np.isfinite(rho)):
            acc.violation("physical", site, "malformed-density-matrix", case, str(want.shape), str(rho.shape))
            return
        if np.max(np.abs(rho - rho.conj().T)) > 1e-9:
            acc.violation("physical", site, "not-hermitian", case, "hermitian", "not")
        w = np.linalg.eigvalsh((rho + rho.conj().T) / 2)
        if w.min() < -1e-9:
            acc.violation("physical", site, "negative-eigenvalue", case, ">=0", float(w.min()))
        if abs(np.trace(rho).real - surv) > 1e-9:
            acc.violation("physical", site, "trace-is-not-survival-probability", case, surv, float(np.trace(rho).real))
        if np.max(np.abs(rho - want)) > 1e-9:
            acc.violation("channel", site, "state-differs-from-reference-channels", case, np.round(want, 5).tolist(), np.round(rho, 5).tolist())
    else:
        name = type(rd).__name__
        if name == "Stabilizer":
            mix = [(1.0, rd.data)]
        elif name == "MixedStabilizer":
            mix = rd.mixture
        else:
            acc.violation("physical", site, "unexpected-representation-" + name, case, "stabilizer mixture", name)
            return
        rho, tot, bad = mixture_dm(mix, n)
        if bad:
            acc.violation("physical", site, bad, case, "valid tableaux", bad)
            return
        if abs(tot - surv) > 1e-9:
            acc.violation("physical", site, "total-weight-is-not-survival-probability", case, surv, tot)
        if np.max(np.abs(rho - want)) > 1e-9:
            acc.violation("channel", site, "mixture-differs-from-reference-channels", case, np.round(want, 5).tolist(), np.round(rho, 5).tolist())


_TARGETS = None


def check_fidelity(acc, st, backend, n, want, case):
    """Infidelity with pure stabilizer targets: same value on both back ends = 1 - <t|rho|t>."""
    global _TARGETS
    from graphiq.state import QuantumState
    from graphiq.metrics import Infidelity
    from ..ref import spaces
    if _TARGETS is None:
        st2 = spaces.stabilizer_states(2)
        _TARGETS = [st2[i] for i in (0, 7, 23, 41)]
    for t in _TARGETS:
        tv = sv.flat(t.vector())
        exp = 1 - float(np.real(tv.conj() @ want @ tv))
        try:
            if backend == "dm":
                tgt = QuantumState(sv.dm(t.vector()), rep_type="dm")
            else:
                tgt = QuantumState(gq.group_to_clifford_tableau(t), rep_type="s")
            v = float(Infidelity(tgt).evaluate(st, None))
        except Exception as e:
            acc.violation("fidelity", backend + ":Infidelity.evaluate", "raises-" + type(e).__name__, dict(case, target=t.strings()), exp, repr(e)[:160])
            return
        if abs(v - exp) > 1e-7:
            acc.violation("fidelity", backend + ":Infidelity.evaluate", "differs-from-1-minus-<t|rho|t>", dict(case, target=t.strings()), exp, v)
            return


def check_case(acc, layout, program, noises, tier):
    n = layout[0] + layout[1]
    case0 = {"layout": list(layout), "program": program, "noise": _jn(noises)}
    want_on = ref_run(layout, program, noises, True)
    want_off = ref_run(layout, program, noises, False)
    trivial = all(nd is None for nd in noises)
    for backend in ("dm", "mix"):
        for noise_on in (True, False):
            for reduce_flag in ((True, False) if (backend == "mix" and noise_on) else (True,)):
                case = dict(case0, backend=backend, noise_simulation=noise_on, reduce=reduce_flag)
                acc.evaluations += 1
                acc.transitions += len(program)
                try:
                    ops_list = [make_noisy_op(l, nd, slot=j) for j, (l, nd) in enumerate(zip(program, noises))]
                    circ_obj = build_real(layout, ops_list)
                    st = compile_real(circ_obj, backend, noise_on, reduce_flag)
                    if noise_on and reduce_flag and not trivial:
                        # the same circuit object compiled again (same and other back end) must give the same channel
                        for again in (backend, "mix" if backend == "dm" else "dm"):
                            st2 = compile_real(circ_obj, again, True, True)
                            check_state(acc, st2, again, n, want_on, survival(noises, program, True), dict(case, recompiled_with=again), again + ":recompile-same-circuit")
                except Exception as e:
                    import traceback
                    tb = traceback.extract_tb(e.__traceback__)
                    where = [f.name for f in tb if "/graphiq/" in f.filename]
                    acc.violation("compile", "%s:compile" % backend, "raises-%s@%s" % (type(e).__name__, where[-1] if where else "?"), case, "a state", repr(e)[:160])
                    continue
                check_state(acc, st, backend, n, want_on if noise_on else want_off, survival(noises, program, noise_on), case, backend + ":constructor-noise")
                if noise_on and reduce_flag and len(program) == 2:
                    check_fidelity(acc, st, backend, n, want_on, case)
                acc.validated += 1
    acc.state(core.h64(np.round(want_on, 6).tobytes()))
    if not trivial:
        acc.nontriv(core.jdump(case0))


def _jn(noises):
    return [list(x) if isinstance(x, tuple) else x for x in noises]


# ---- assign_noise(map) path ----------------------------------------------------------------

MAP_MENU = [None, ["dep", 0.25, True], ["pauli", "X", True], ["pauli", "Z", False], ["loss", 0.25, True], ["dep", 0.5, False]]
GATE_NAME = {"H": "Hadamard", "P": "Phase", "X": "SigmaX", "I": "Identity", "Pdag": "PhaseDagger", "Y": "SigmaY", "Z": "SigmaZ"}


def map_cases(program):
    """all maps assigning one menu entry to each (register type(s), gate type) occurring in the program."""
    keys = []
    for l in program:
        if l[0] == "1":
            keys.append((l[2], GATE_NAME[l[1]]))
        elif l[0] == "W":
            for nm_ in l[1]:
                keys.append((l[2], GATE_NAME[nm_]))
        else:
            keys.append((l[1] + l[3], l[0]))
    keys = sorted(set(keys))
    for choice in itertools.product(MAP_MENU, repeat=len(keys)):
        yield dict(zip(keys, choice))


def noises_from_map(program, m):
    out = []
    for l in program:
        if l[0] == "1":
            out.append(m.get((l[2], GATE_NAME[l[1]])))
        elif l[0] == "W":
            out.append(("list", [m.get((l[2], GATE_NAME[nm_])) for nm_ in l[1]]))
        else:
            out.append(m.get((l[1] + l[3], l[0])))
    return out


def check_map_case(acc, layout, program, m):
    n = layout[0] + layout[1]
    real_map = {k: {} for k in ("e", "p", "ee", "ep", "pe", "pp")}
    for (rt, gname), d in m.items():
        if d is not None:
            real_map[rt][gname] = make_noise(d)
    noises = noises_from_map(program, m)
    case0 = {"layout": list(layout), "program": program, "map": {"%s:%s" % k: v for k, v in m.items()}}
    want_on = ref_run(layout, program, noises, True)
    want_off = ref_run(layout, program, noises, False)
    for backend in ("dm", "mix"):
        for noise_on in (True, False):
            case = dict(case0, backend=backend, noise_simulation=noise_on)
            acc.evaluations += 1
            acc.transitions += len(program)
            try:
                base = gq.build_circuit(layout, program)
                noisy = base.assign_noise(real_map)
                st = compile_real(noisy, backend, noise_on, True)
            except Exception as e:
                import traceback
                tb = traceback.extract_tb(e.__traceback__)
                where = [f.name for f in tb if "/graphiq/" in f.filename]
                acc.violation("compile", "%s:assign_noise" % backend, "raises-%s@%s" % (type(e).__name__, where[-1] if where else "?"), case, "a state", repr(e)[:160])
                continue
            check_state(acc, st, backend, n, want_on if noise_on else want_off, survival(noises, program, noise_on), case, backend + ":assign_noise")
            acc.validated += 1
    if any(v is not None for v in m.values()):
        acc.nontriv(core.jdump(case0))


def programs(L):
    return [list(t) for n in range(0, L + 1) for t in itertools.product(LETTERS, repeat=n)]


def shards(tier):
    out = []
    L = 2
    progs = programs(L)
    for i in range(len(progs)):
        out.append({"kind": "ctor", "prog": i})
    for i in range(0, len(progs), 6):
        out.append({"kind": "map", "lo": i, "hi": min(len(progs), i + 6)})
    return out


def run_shard(shard, tier, acc):
    progs = programs(2)
    if shard["kind"] == "ctor":
        prog = progs[shard["prog"]]
        for noises in itertools.product(*[noise_choices(l) for l in prog]):
            check_case(acc, LAYOUT, prog, list(noises), tier)
        acc.sample({"program": prog, "noise": _jn(list(noises)) if prog else []})
    else:
        for i in range(shard["lo"], shard["hi"]):
            for m in map_cases(progs[i]):
                check_map_case(acc, LAYOUT, progs[i], m)
        acc.sample({"program": progs[i], "map": "all maps over %s" % (MAP_MENU,)})


def replay_case(case, acc):
    prog = case["program"]
    if "map" in case:
        m = {tuple(k.split(":")): v for k, v in case["map"].items()}
        check_map_case(acc, tuple(case["layout"]), prog, m)
    else:
        noises = [tuple(x) if (isinstance(x, list) and x and x[0] == "list") else x for x in case["noise"]]
        check_case(acc, tuple(case["layout"]), prog, noises, "quick")


def _has_pauli(case):
    return "pauli" in core.jdump(case.get("noise", case.get("map")))


PREDICATES = {"assignment_contains_a_pauli_error": _has_pauli}
