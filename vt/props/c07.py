"""C07 - a Clifford tableau stays valid and tracks the right state under any history.

Engine B: explicit-state search of the complete 1- and 2-qubit tableau spaces (key = n, table, phase, iphase) over the
whole tableau API, each transition compared in lock-step with the R2 stabilizer group; size-changing operations lead
to 3-qubit tableaux that are checked and closed by every removal.  Large n (50/200): deviation-bounded histories.
"""
import itertools
import numpy as np

from .. import core, gq
from ..explore import explore
from ..env import Owned
from ..ref import pauli as P

ID = "C07"
META = {
    "engine": "B (explicit-state BFS over the real tableau functions, lock-step with R2) + deviation-bounded histories at n=50/200",
    "rule": "state = (n, table, phase, iphase) of a real CliffordTableau; transition = one API call with its arguments and (for "
            "random outcomes) one explorer answer; non-trivial = the call changed the stabilizer group or the size; distinct = distinct (state, call)",
    "bounds": {"quick": "complete reachable 1- and 2-qubit spaces from |0>,|00> (fixpoint); every size-changing call from every state, results on 3 qubits "
                        "checked and every removal applied once; n=50 base histories with every single inserted operation on 5 probe qubits",
               "thorough": "same with four 3-qubit excursions closed per state, all tensor partners, n=50 and n=100 histories; the deepest variant (VERIF_C07_DEEP=1: full menu from every state, "
                           "every excursion, gate words of length 4, n=200 with three layers) needs more than 12 CPU-hours and was not completed"},
    "assumptions": ["states with equal (n, table, phase, iphase) have equal futures: these four fields are the whole object state",
                    "measure_x/measure_y: only the returned outcome and tableau validity are demanded (post-state basis is not documented)"],
}
SETTINGS = [0, 1, "probabilistic"]


def blob_of(tab):
    return (tab.n_qubits, np.asarray(tab.table, dtype=np.int8).tobytes(), np.asarray(tab.phase, dtype=np.int8).tobytes(),
            np.asarray(tab.iphase, dtype=np.int8).tobytes())


def tab_of(blob):
    from graphiq.backends.stabilizer.clifford_tableau import CliffordTableau
    n, t, p, ip = blob
    tab = CliffordTableau(np.frombuffer(t, dtype=np.int8).reshape(2 * n, 2 * n).astype(int),
                          np.frombuffer(p, dtype=np.int8).astype(int))
    tab.iphase = np.frombuffer(ip, dtype=np.int8).astype(int)
    return tab


def describe(blob):
    n, t, p, ip = blob
    return {"n": n, "table": np.frombuffer(t, dtype=np.int8).reshape(2 * n, 2 * n).tolist(),
            "phase": np.frombuffer(p, dtype=np.int8).tolist(), "iphase": np.frombuffer(ip, dtype=np.int8).tolist()}


def blob_from_desc(d):
    n = d["n"]
    return (n, np.array(d["table"], dtype=np.int8).tobytes(), np.array(d["phase"], dtype=np.int8).tobytes(),
            np.array(d["iphase"], dtype=np.int8).tobytes())


def initial_states(tier):
    from graphiq.backends.stabilizer.clifford_tableau import CliffordTableau
    out = []
    for n in (1, 2):
        b = blob_of(CliffordTableau(n))
        out.append((b, b))
    return out


# ---- the operation menu ---------------------------------------------------------------

def menu(n, lean=False):
    ops = []
    for q in range(n):
        for g in ("hadamard", "phase", "phase_dagger", "x", "y", "z"):
            ops.append(("g1", g, q))
    for a, b in itertools.permutations(range(n), 2):
        for g in ("cnot", "control_z", "control_y", "swap"):
            ops.append(("g2", g, a, b))
    for q in range(n):
        for s in SETTINGS:
            ops.append(("mz", q, s))
            if not lean or s == "probabilistic":
                ops.append(("mx", q, s))
                ops.append(("my", q, s))
            for basis in "zxy":
                for intended in (0, 1):
                    if lean and basis != "z" and (s == "probabilistic" or intended == 0):
                        continue
                    ops.append(("reset", basis, q, intended, s))
    for pos in range(n + 1):
        ops.append(("insert", pos))
    ops.append(("add",))
    if n >= 2:
        for q in range(n):
            for s in SETTINGS:
                ops.append(("remove", q, s))
        for r in range(1, n):
            for keep in itertools.combinations(range(n), r):
                for s in SETTINGS:
                    if lean and n == 2:
                        continue  # on 2 qubits partial_trace(keep one) is remove_qubit(the other), kept in the full menu
                    ops.append(("ptrace", list(keep), s))
    return ops


def _fns():
    import graphiq.backends.stabilizer.functions.transformation as tr
    import graphiq.backends.stabilizer.functions.clifford as cl
    return tr, cl


R2_G1 = {"hadamard": ["H"], "phase": ["P"], "phase_dagger": ["P_dag"], "x": ["X"], "y": ["Y"], "z": ["Z"]}


def ref_step(grp, op, outcome=None):
    """R2 image of the group under op; for measuring ops `outcome` selects the branch."""
    g = grp.copy()
    k = op[0]
    if k == "g1":
        for nm in R2_G1[op[1]]:
            g.apply(nm, op[2])
        return g
    if k == "g2":
        a, b = op[2], op[3]
        if op[1] == "cnot":
            return g.apply("CNOT", a, b)
        if op[1] == "control_z":
            return g.apply("CZ", a, b)
        if op[1] == "control_y":
            return g.apply("P_dag", b).apply("CNOT", a, b).apply("P", b)
        if op[1] == "swap":
            perm = list(range(g.n))
            perm[a], perm[b] = b, a
            return g.permute(perm)
    if k == "mz":
        return g.measure_z(op[1], outcome)
    if k == "reset":
        basis, q, intended = op[1], op[2], op[3]
        g.measure_z(q, outcome)
        if outcome != intended:
            g.apply("X", q)
        if basis in "xy":
            g.apply("H", q)
        if basis == "y":
            g.apply("P", q)
        return g
    if k == "insert":
        return g.insert_zero(op[1])
    if k == "add":
        return g.insert_zero(g.n)
    if k == "remove":
        g.measure_z(op[1], outcome)
        return g.remove_product_qubit(op[1])
    raise ValueError(op)


def real_step(tab, op):
    """apply op to the real tableau (in place / returned); returns (tableau, returned outcome or None)."""
    tr, cl = _fns()
    k = op[0]
    if k == "g1":
        fn = {"hadamard": tr.hadamard_gate, "phase": tr.phase_gate, "phase_dagger": tr.phase_dagger_gate, "x": tr.x_gate,
              "y": tr.y_gate, "z": tr.z_gate}[op[1]]
        return fn(tab, op[2]), None
    if k == "g2":
        fn = {"cnot": tr.cnot_gate, "control_z": tr.control_z_gate, "control_y": tr.control_y_gate, "swap": cl.swap_gate}[op[1]]
        return fn(tab, op[2], op[3]), None
    if k == "mz":
        t, out, _ = cl.z_measurement_gate(tab, op[1], op[2])
        return t, int(out)
    if k == "mx":
        return tab, int(cl.measure_x(tab, op[1], op[2]))
    if k == "my":
        return tab, int(cl.measure_y(tab, op[1], op[2]))
    if k == "reset":
        fn = {"z": cl.reset_z, "x": cl.reset_x, "y": cl.reset_y}[op[1]]
        return fn(tab, op[2], op[3], op[4]), None
    if k == "insert":
        return cl.insert_qubit(tab, op[1]), None
    if k == "add":
        return cl.add_qubit(tab), None
    if k == "remove":
        return cl.remove_qubit(tab, op[1], op[2]), None
    if k == "ptrace":
        return cl.partial_trace(tab, op[1], [2] * tab.n_qubits, op[2]), None
    raise ValueError(op)


def admissible(possible, setting):
    possible = sorted(possible)
    if setting == "probabilistic":
        return possible
    if setting == 0:
        return [0] if 0 in possible else [1]
    return [1] if 1 in possible else [0]


def measured_pauli(op, n):
    q = op[1]
    if op[0] == "mx":
        return (1 << q, 0, 0)
    if op[0] == "my":
        return (1 << q, 1 << q, 1)
    return (0, 1 << q, 0)


def step_and_check(acc, blob, op, ch=None):
    """one transition from the state `blob`; returns successor blob or None (violation / not expandable)."""
    pre = tab_of(blob)
    n = pre.n_qubits
    if _GRP_CACHE.get("blob") is not blob:
        _GRP_CACHE["blob"] = blob
        _GRP_CACHE["grp"] = gq.tableau_group(pre)
    grp = _GRP_CACHE["grp"]
    case = {"state": describe(blob), "op": list(op)}
    site = "%s%s" % (op[0], ":" + str(op[1]) if op[0] in ("g1", "g2", "reset") else "")
    acc.transitions += 1
    pre_blob = blob
    try:
        if ch is not None:
            with Owned(ch):
                post, ret = real_step(pre, op)
        else:
            post, ret = real_step(pre, op)
    except Exception as e:
        changed = blob_of(pre) != pre_blob or pre.n_qubits != n
        if changed:
            acc.violation("raises", site, "raises-%s-and-leaves-tableau-changed" % type(e).__name__, case, "a tableau or an unchanged object", repr(e)[:200])
        else:
            # a refused edit that leaves the object untouched; still a failure of a documented operation for 'returns' style calls
            acc.violation("raises", site, "raises-" + type(e).__name__, case, "a tableau", repr(e)[:200])
        return None
    bad = gq.tableau_invariant(post)
    if bad is not None:
        acc.violation("invariant", site, "invalid-tableau: " + bad, case, "binary, symplectic, paired", describe_tab(post))
        return None
    got = gq.tableau_group(post)
    k = op[0]
    if k in ("mz", "mx", "my"):
        mp = measured_pauli(op, n)
        poss = grp.pauli_outcomes(mp)
        adm = admissible(poss, op[2])
        if ret not in adm:
            acc.violation("outcome", site, "outcome-not-admissible", case, adm, ret)
            return None
        if k == "mz":
            want = grp.copy().measure_pauli(mp, ret)
            if not got.same_state(want):
                acc.violation("state", site, "post-measurement-state-wrong", case, want.strings(), got.strings())
                return None
        else:
            # post state: collapsed onto the measured Pauli's eigenstate, possibly left in the rotated frame
            want = grp.copy().measure_pauli(mp, ret)
            rot = want.copy()
            if k == "mx":
                rot.apply("H", op[1])
            else:
                rot.apply("P_dag", op[1]).apply("H", op[1])
            if not (got.same_state(want) or got.same_state(rot)):
                acc.violation("state", site, "post-measurement-state-wrong", case, [want.strings(), rot.strings()], got.strings())
                return None
    elif k in ("reset", "remove"):
        q = op[2] if k == "reset" else op[1]
        setting = op[4] if k == "reset" else op[2]
        adm = admissible(grp.z_outcomes(q), setting)
        wants = [ref_step(grp, op, o) for o in adm]
        if not any(got.same_state(w) for w in wants):
            acc.violation("state", site, "state-after-%s-wrong" % k, case, [w.strings() for w in wants], got.strings())
            return None
    elif k == "ptrace":
        keep, setting = op[1], op[2]
        removal = sorted(set(range(n)) - set(keep), reverse=True)
        cands = [grp]
        for q in removal:
            nxt = []
            for c in cands:
                for o in admissible(c.z_outcomes(q), setting):
                    nxt.append(ref_step(c, ("remove", q, setting), o))
            cands = nxt
        if not any(got.same_state(w) for w in cands):
            acc.violation("state", site, "state-after-partial-trace-wrong", case, [w.strings() for w in cands], got.strings())
            return None
    else:
        want = ref_step(grp, op)
        if not got.same_state(want):
            sym = "sign-wrong" if got.same_up_to_signs(want) else "group-wrong"
            acc.violation("state", site, sym, case, want.strings(), got.strings())
            return None
    acc.validated += 1
    if not got.same_state(grp) if got.n == grp.n else True:
        acc.nontriv_fast((blob, repr(op)))
    return blob_of(post)


_GRP_CACHE = {}


def describe_tab(tab):
    try:
        return {"n": tab.n_qubits, "table": np.asarray(tab.table).tolist(), "phase": np.asarray(tab.phase).tolist()}
    except Exception as e:
        return repr(e)


def transitions_from(acc, blob, lean=False):
    """all successor blobs of a state (all menu entries, all explorer answers)."""
    n = blob[0]
    out = []
    for op in menu(n, lean):
        setting = None
        if op[0] in ("mz", "mx", "my"):
            setting = op[2]
        elif op[0] == "reset":
            setting = op[4]
        elif op[0] in ("remove", "ptrace"):
            setting = op[2]
        if setting == "probabilistic":
            def body(ch, op=op):
                return step_and_check(acc, blob, op, ch)
            for ch, succ in explore(body, max_exec=64):
                acc.evaluations += 1
                if succ is not None:
                    out.append(succ)
        else:
            acc.evaluations += 1
            succ = step_and_check(acc, blob, op)
            if succ is not None:
                out.append(succ)
    return out


def expand(blob, tier, acc):
    n = blob[0]
    lean = tier == "quick" or not deep()
    cap3 = 2 if tier == "quick" else 4
    succs = transitions_from(acc, blob, lean)
    res = []
    for s in succs:
        if s[0] <= 2:
            res.append((s, s))
        elif s[0] == 3:
            # depth-1 excursion to 3 qubits, closed by every removal / partial trace (not expanded further)
            key3 = ("x3", s)
            if key3 in _SEEN3:
                continue
            _SEEN3.add(key3)
            if lean and _x3_count(blob) >= cap3:
                continue  # close two (quick) / four (thorough) of the 3-qubit excursions per state; all of them in the deep variant
            for op in menu(3):
                if lean and op[0] == "ptrace" and (len(op[1]) != 1 or op[2] != 1):
                    continue
                if op[0] in ("remove", "ptrace") and op[-1] != "probabilistic":
                    acc.evaluations += 1
                    t = step_and_check(acc, s, op)
                    if t is not None and t[0] <= 2:
                        res.append((t, t))
    # tensor products (two real objects): this state with each 1-qubit seed, both orders
    for other in (_tensor_partners()[:3] if tier == "quick" else _tensor_partners()):
        check_tensor(acc, blob, other)
        check_tensor(acc, other, blob)
    return res


_SEEN3 = set()
_X3 = {}


def _x3_count(blob):
    c = _X3.get(blob, 0)
    _X3[blob] = c + 1
    return c

_PARTNERS = None


def _tensor_partners():
    global _PARTNERS
    if _PARTNERS is None:
        from graphiq.backends.stabilizer.clifford_tableau import CliffordTableau
        tr, cl = _fns()
        outs = []
        for word in ([], ["x"], ["hadamard"], ["hadamard", "z"], ["hadamard", "phase"], ["x", "hadamard", "phase"]):
            t = CliffordTableau(1)
            for w in word:
                t, _ = real_step(t, ("g1", w, 0))
            outs.append(blob_of(t))
        _PARTNERS = outs
    return _PARTNERS


def check_tensor(acc, ba, bb):
    tr, cl = _fns()
    a, b = tab_of(ba), tab_of(bb)
    if a.n_qubits + b.n_qubits > 3:
        return
    case = {"a": describe(ba), "b": describe(bb), "op": ["tensor"]}
    acc.transitions += 1
    acc.evaluations += 1
    ga, gb = gq.tableau_group(a), gq.tableau_group(b)
    try:
        t = cl.tensor([a, b])
    except Exception as e:
        changed = blob_of_safe(a) != ba or blob_of_safe(b) != bb
        acc.violation("raises", "tensor", "raises-%s%s" % (type(e).__name__, "-and-leaves-tableau-changed" if changed else ""), case,
                      "a tableau", repr(e)[:200])
        return
    bad = gq.tableau_invariant(t)
    if bad is not None:
        acc.violation("invariant", "tensor", "invalid-tableau: " + bad, case, "valid", describe_tab(t))
        return
    want = ga.tensor(gb)
    if not gq.tableau_group(t).same_state(want):
        acc.violation("state", "tensor", "group-wrong", case, want.strings(), gq.tableau_group(t).strings())
        return
    acc.validated += 1
    acc.nontriv_fast(("tensor", ba, bb))


def blob_of_safe(tab):
    try:
        return blob_of(tab)
    except Exception:
        return None


# ---- large n: deviation-bounded histories ----------------------------------------------

def base_histories(n, layers=3):
    ghz = [("g1", "hadamard", 0)] + [("g2", "cnot", i, i + 1) for i in range(n - 1)]
    cluster = [("g1", "hadamard", i) for i in range(n)] + [("g2", "control_z", i, i + 1) for i in range(n - 1)]
    brick = []
    for layer in range(layers):
        brick += [("g1", "hadamard" if (i + layer) % 2 == 0 else "phase", i) for i in range(n)]
        brick += [("g2", "cnot", i, i + 1) for i in range(layer % 2, n - 1, 2)]
    sweep = [("mz", 0, 1), ("reset", "z", 1, 0, 0), ("mz", n // 2, 0), ("reset", "x", n - 1, 1, 1), ("mz", n - 2, 1)]
    return {"ghz": ghz + sweep, "cluster": cluster + sweep, "brick": brick + sweep}


def probe_ops(n, qubits):
    ops = []
    for q in qubits:
        for g in ("hadamard", "phase", "x", "y"):
            ops.append(("g1", g, q))
        ops.append(("mz", q, 0))
        ops.append(("mz", q, 1))
        ops.append(("reset", "z", q, 1, 1))
    for a, b in ((0, 1), (1, 0), (n // 2, n - 1), (n - 1, 0)):
        ops.append(("g2", "cnot", a, b))
        ops.append(("g2", "control_z", a, b))
        ops.append(("g2", "swap", a, b))
    return ops


def run_history(acc, n, hist, case):
    """lock-step at large n: R2 group vs the real tableau, compared at the end and after every measuring op."""
    from graphiq.backends.stabilizer.clifford_tableau import CliffordTableau
    tab = CliffordTableau(n)
    grp = P.StabGroup.zero(n)
    for i, op in enumerate(hist):
        acc.transitions += 1
        k = op[0]
        try:
            tab, ret = real_step(tab, op)
        except Exception as e:
            acc.violation("raises", "large-n:" + k, "raises-" + type(e).__name__, dict(case, step=i), "a tableau", repr(e)[:200])
            return
        if k == "mz":
            adm = admissible(grp.z_outcomes(op[1]), op[2])
            if ret not in adm:
                acc.violation("outcome", "large-n:mz", "outcome-not-admissible", dict(case, step=i), adm, ret)
                return
            grp = ref_step(grp, op, ret)
        elif k == "reset":
            adm = admissible(grp.z_outcomes(op[2]), op[4])
            grp = ref_step(grp, op, adm[0])
        else:
            grp = ref_step(grp, op)
    bad = gq.tableau_invariant(tab)
    if bad is not None:
        acc.violation("invariant", "large-n", "invalid-tableau: " + bad, case, "valid", "n=%d" % n)
        return
    if not gq.tableau_group(tab).same_state(grp):
        acc.violation("state", "large-n", "group-wrong-after-history", case, "R2 group", "differs")
        return
    acc.validated += 1
    acc.nontriv(("large", core.h64(core.jdump(case))))


# ---- Stabilizer / MixedStabilizer wrappers ---------------------------------------------------------

def wrapper_menu(n):
    ops = []
    for q in range(n):
        for m in ("apply_hadamard", "apply_phase", "apply_phase_dagger", "apply_sigmax", "apply_sigmay", "apply_sigmaz"):
            ops.append((m, q))
        for s in SETTINGS:
            ops += [("apply_measurement", q, s), ("apply_x_measurement", q, s), ("reset_qubit", q, s), ("remove_qubit", q, s), ("trace_out_qubits", [q], s)]
        ops.append(("partial_trace", [q]))
    for a, b in itertools.permutations(range(n), 2):
        ops += [("apply_cnot", a, b), ("apply_cz", a, b)]
    ops += [("apply_circuit", False), ("apply_circuit", True)]
    return ops


CIRC = [("H", 0), ("CNOT", 0, 1), ("P", 1), ("X", 0)]


def wrapper_expected(grp, op, outcome):
    m = op[0]
    g = grp.copy()
    simple = {"apply_hadamard": "H", "apply_phase": "P", "apply_phase_dagger": "P_dag", "apply_sigmax": "X", "apply_sigmay": "Y", "apply_sigmaz": "Z"}
    if m in simple:
        return g.apply(simple[m], op[1])
    if m == "apply_cnot":
        return g.apply("CNOT", op[1], op[2])
    if m == "apply_cz":
        return g.apply("CZ", op[1], op[2])
    if m == "apply_measurement":
        return g.measure_z(op[1], outcome)
    if m == "apply_x_measurement":
        return g.measure_pauli((1 << op[1], 0, 0), outcome)
    if m == "reset_qubit":
        return g.reset_z(op[1], outcome)
    if m == "remove_qubit":
        return g.measure_z(op[1], outcome).remove_product_qubit(op[1])
    if m == "trace_out_qubits":
        q = op[1][0]
        return g.measure_z(q, outcome).remove_product_qubit(q)
    if m == "partial_trace":
        q = [x for x in range(g.n) if x not in op[1]][0]
        return g.measure_z(q, outcome).remove_product_qubit(q)
    if m == "apply_circuit":
        seq = CIRC[::-1] if op[1] else CIRC
        for gt in seq:
            nm = gt[0]
            if op[1] and nm == "P":
                nm = "P_dag"
            g.apply(nm, *gt[1:])
        return g
    raise ValueError(op)


def measured_qubit(op, n):
    m = op[0]
    if m in ("apply_measurement", "reset_qubit", "remove_qubit"):
        return op[1], "z"
    if m == "apply_x_measurement":
        return op[1], "x"
    if m == "trace_out_qubits":
        return op[1][0], "z"
    if m == "partial_trace":
        return [x for x in range(n) if x not in op[1]][0], "z"
    return None, None


def check_wrapper_op(acc, grp, op, kind, ch):
    from graphiq.backends.stabilizer.state import Stabilizer, MixedStabilizer
    n = grp.n
    tab = gq.group_to_clifford_tableau(grp)
    obj = Stabilizer(tab) if kind == "Stabilizer" else MixedStabilizer([(1.0, tab)])
    case = {"state": grp.strings(), "wrapper": kind, "op": [x for x in op]}
    site = kind + "." + op[0]
    acc.transitions += 1
    args = list(op[1:])
    kwargs = {}
    q, basis = measured_qubit(op, n)
    setting = None
    if q is not None and op[0] != "partial_trace":
        setting = args.pop()
        kwargs["measurement_determinism"] = setting
    if op[0] == "partial_trace":
        args = [op[1], [2] * n]
        setting = "probabilistic"
    if op[0] == "apply_circuit":
        args = [list(CIRC)]
        kwargs = {"reverse": op[1]}
    try:
        with Owned(ch):
            ret = getattr(obj, op[0])(*args, **kwargs)
    except Exception as e:
        acc.violation("wrapper", site, "raises-" + type(e).__name__, case, "operation applied", repr(e)[:200])
        return
    tabs = [obj.data] if kind == "Stabilizer" else [t for p, t in obj.mixture]
    if len(tabs) != 1:
        acc.violation("wrapper", site, "mixture-size-changed", case, 1, len(tabs))
        return
    bad = gq.tableau_invariant(tabs[0])
    if bad:
        acc.violation("wrapper", site, "invalid-tableau: " + bad, case, "valid", bad)
        return
    got = gq.tableau_group(tabs[0])
    if q is None:
        wants = [wrapper_expected(grp, op, None)]
    else:
        poss = grp.z_outcomes(q) if basis == "z" else grp.pauli_outcomes((1 << q, 0, 0))
        adm = admissible(poss, setting)
        if op[0] in ("apply_measurement", "apply_x_measurement"):
            out = ret[0] if isinstance(ret, list) else ret
            if out not in adm:
                acc.violation("wrapper", site, "outcome-not-admissible", case, adm, out)
                return
            adm = [int(out)]
        wants = [wrapper_expected(grp, op, o) for o in adm]
    if not any(w.n == got.n and got.same_state(w) for w in wants):
        acc.violation("wrapper", site, "state-after-call-wrong", case, [w.strings() for w in wants], got.strings())
        return
    acc.validated += 1
    acc.nontriv_fast(("wrapper", kind, repr(op), tuple(grp.gens)))


def three_qubit_shard(acc, first, L):
    """3-qubit tableaux reached by gate words from |000> and |101> (many destabilizer structures), then every removal / partial trace /
    swap / insertion checked once against R2; plus independence of copies (a tableau built from another must not share its arrays)."""
    from graphiq.backends.stabilizer.clifford_tableau import CliffordTableau
    gates = [("g1", g, q) for g in ("hadamard", "phase") for q in range(3)] + [("g2", "cnot", a, b) for a, b in itertools.permutations(range(3), 2)]
    seen = set()
    for start in ([], [("g1", "x", 0), ("g1", "x", 2)]):
        for n in range(0, L):
            for w in itertools.product(gates, repeat=n):
                word = list(start) + [gates[first]] + list(w)
                t = CliffordTableau(3)
                for op in word:
                    t, _ = real_step(t, op)
                b = blob_of(t)
                if b in seen:
                    continue
                seen.add(b)
                for op in menu(3):
                    if op[0] in ("remove", "ptrace") or (op[0] == "g2" and op[1] == "swap") or op[0] in ("insert", "mz", "reset"):
                        if op[-1] == "probabilistic":
                            for ch, _ in explore(lambda ch, op=op: step_and_check(acc, b, op, ch), max_exec=16):
                                acc.evaluations += 1
                        else:
                            acc.evaluations += 1
                            step_and_check(acc, b, op)
                # copies are independent objects
                src = tab_of(b)
                for how, cp in (("CliffordTableau(t)", CliffordTableau(src)), ("t.copy()", src.copy())):
                    acc.evaluations += 1
                    cp, _ = real_step(cp, ("g1", "hadamard", 0))
                    cp, _ = real_step(cp, ("g2", "cnot", 0, 1))
                    if blob_of(src) != b:
                        acc.violation("aliasing", how, "copy-shares-state-with-its-source", {"state": describe(b), "op": ["copy-then-gate"]}, "source unchanged", describe(blob_of(src)))
                        break
    return len(seen)


def deep():
    """VERIF_C07_DEEP=1 selects the deepest variant of the thorough tier (full menu from every state, every 3-qubit excursion closed, gate words of
    length 4, n=200 with three layers); it needs more than 12 CPU-hours and is not what `./check C07 thorough` runs by default."""
    import os
    return os.environ.get("VERIF_C07_DEEP") == "1"


def shards(tier):
    """large-n part and wrapper part (the BFS part is driven by run())."""
    out = []
    for g in range(12):
        out.append({"three": True, "first": g, "L": 4 if (tier != "quick" and deep()) else 3})
    for a in range(0, 60, 6):
        out.append({"wrappers": True, "lo": a, "hi": a + 6})
    sizes = [50] if tier == "quick" else ([50, 200] if deep() else [50, 100])
    layers = 3 if (tier != "quick" and deep()) else 2
    for n in sizes:
        for name in ("ghz", "cluster", "brick"):
            L = len(base_histories(n, layers)[name])
            step = max(1, L // (8 if n == 50 else 24))
            for lo in range(0, L + 1, step):
                out.append({"n": n, "base": name, "lo": lo, "hi": min(L + 1, lo + step), "dev": 1, "layers": layers})
    return out


def run_shard(shard, tier, acc):
    if shard.get("three"):
        k = three_qubit_shard(acc, shard["first"], shard["L"])
        acc.counters["three_qubit_tableaux"] += k
        return
    if shard.get("wrappers"):
        from ..ref import spaces
        st = spaces.stabilizer_states(2)
        for i in range(shard["lo"], shard["hi"]):
            for kind in ("Stabilizer", "MixedStabilizer"):
                for op in wrapper_menu(2):
                    if kind == "MixedStabilizer" and op[0] in ("apply_x_measurement", "apply_circuit"):
                        continue
                    for ch, _ in explore(lambda ch, op=op, kind=kind: check_wrapper_op(acc, st[i], op, kind, ch), max_exec=16):
                        acc.evaluations += 1
        acc.sample({"state": st[i].strings(), "wrapper": "Stabilizer", "op": ["reset_qubit", 0, 1]})
        return
    n = shard["n"]
    base = base_histories(n, shard.get("layers", 3))[shard["base"]]
    probes = probe_ops(n, [0, 1, n // 2, n - 2, n - 1])
    if shard["lo"] == 0:
        acc.evaluations += 1
        run_history(acc, n, base, {"n": n, "base": shard["base"], "layers": shard.get("layers", 3), "insert": []})
    for pos in range(shard["lo"], shard["hi"]):
        for op in probes:
            acc.evaluations += 1
            hist = base[:pos] + [op] + base[pos:]
            run_history(acc, n, hist, {"n": n, "base": shard["base"], "layers": shard.get("layers", 3), "insert": [[pos, list(op)]]})
    acc.sample({"n": n, "base": shard["base"], "inserted_at": shard["lo"], "op": list(probes[0])})


def run(tier, seed):
    from .. import bfs
    total = bfs.search("vt.props.c07", tier)
    sh = shards(tier)
    r = seed % len(sh)
    big = core.run_pool("vt.props.c07", sh[r:] + sh[:r], tier)
    total.merge(big)
    total.sample({"state": describe(initial_states(tier)[1][1]), "op": ["g2", "cnot", 0, 1]})
    return total


def replay_case(case, acc):
    if "wrapper" in case:
        grp = P.StabGroup.from_strings(case["state"])
        op = tuple(case["op"])
        for ch, _ in explore(lambda ch: check_wrapper_op(acc, grp, op, case["wrapper"], ch), max_exec=64):
            pass
    elif "state" in case and case["op"] == ["copy-then-gate"]:
        from graphiq.backends.stabilizer.clifford_tableau import CliffordTableau
        b = blob_from_desc(case["state"])
        src = tab_of(b)
        for how, cp in (("CliffordTableau(t)", CliffordTableau(src)), ("t.copy()", src.copy())):
            cp, _ = real_step(cp, ("g1", "hadamard", 0))
            cp, _ = real_step(cp, ("g2", "cnot", 0, 1))
            if blob_of(src) != b:
                acc.violation("aliasing", how, "copy-shares-state-with-its-source", case, "source unchanged", describe(blob_of(src)))
                break
    elif "state" in case:
        blob = blob_from_desc(case["state"])
        op = tuple(tuple(x) if isinstance(x, list) and case["op"][0] != "ptrace" else x for x in case["op"])
        setting = op[-1] if op[0] in ("mz", "mx", "my", "reset", "remove", "ptrace") else None
        if setting == "probabilistic":
            for ch, s in explore(lambda ch: step_and_check(acc, blob, op, ch), max_exec=64):
                pass
        else:
            step_and_check(acc, blob, op)
    elif "a" in case:
        check_tensor(acc, blob_from_desc(case["a"]), blob_from_desc(case["b"]))
    else:
        n = case["n"]
        base = base_histories(n, case.get("layers", 3))[case["base"]]
        hist = list(base)
        for pos, op in case["insert"]:
            hist = hist[:pos] + [tuple(op)] + hist[pos:]
        run_history(acc, n, hist, case)


PREDICATES = {}
