"""C08 - conversions among graph, stabilizer and density-matrix forms preserve the state.

Engine A: every labelled graph n<=4/5 (6 for matrix-free paths) through every conversion function; every generating set of
every graph state n<=3 (and of every stabilizer state for state_to_graph); all 9 ordered pairs of representations of a
QuantumState, chained.  Oracle: R1 vector of |G> / R2 groups.
"""
import itertools
import numpy as np
import networkx as nx

from .. import core, gq
from ..ref import statevec as sv, pauli as P, spaces, graphs as G

ID = "C08"
META = {
    "engine": "A (exhaustive input enumeration)",
    "rule": "a case = (graph | presentation, conversion); non-trivial = graph has an edge / state is entangled or has a negative sign; distinct = distinct (input, conversion)",
    "bounds": {"quick": "all graphs n<=4 through all conversions and all 9x9 representation chains; n=5 matrix-free conversions; all presentations of all graph states n<=3; "
                        "state_to_graph on all 181 806 presentations of all stabilizer states n<=3 (both tableau types) and on all 20 160 presentations of each of 6 four-qubit states (16 thorough: product states of every axis, GHZ, cluster, ring, star, complete, pairs)",
               "thorough": "n=5 all conversions; n=6 matrix-free; n=4,5 graph states: canonical generators + every single row addition / swap"},
    "assumptions": ["density matrices compared with tolerance 1e-9"],
}


def shards(tier):
    out = []
    for n in range(1, 5):
        ng = 1 << (n * (n - 1) // 2)
        for a in range(0, ng, 8):
            out.append({"kind": "graph", "n": n, "lo": a, "hi": min(ng, a + 8), "dense": True})
    for a in range(0, 1024, 32):
        out.append({"kind": "graph", "n": 5, "lo": a, "hi": a + 32, "dense": tier == "thorough"})
    if tier == "thorough":
        for a in range(0, 32768, 512):
            out.append({"kind": "graph", "n": 6, "lo": a, "hi": a + 512, "dense": False})
    for n in (3, 4):
        out.append({"kind": "order", "n": n})
    for n in (1, 2):
        out.append({"kind": "s2g", "n": n, "lo": 0, "hi": {1: 6, 2: 60}[n]})
    for a in range(0, 1080, 30):
        out.append({"kind": "s2g", "n": 3, "lo": a, "hi": a + 30})
    # 4 qubits: all 20 160 ordered generating sets of chosen states (first size where the binary X part can have an odd determinant other than +-1)
    names = S4_QUICK if tier == "quick" else S4_QUICK + S4_MORE
    for nm in names:
        for part in range(8):
            out.append({"kind": "s2g4", "state": nm, "part": part, "parts": 8})
    return out


S4_QUICK = ["ZIII,IZII,IIZI,IIIZ", "XIII,IXII,IIXI,IIIX", "ZIII,IXII,IIYI,-IIIZ", "XXXX,ZZII,IZZI,IIZZ", "XZII,ZXZI,IZXZ,IIZX", "-YIII,IZXI,IXZI,IIIY"]
S4_MORE = ["XZZZ,ZXII,ZIXI,ZIIX", "XZIZ,ZXZI,IZXZ,ZIZX", "XZZZ,ZXZZ,ZZXZ,ZZZX", "-ZIII,-IZII,IIZI,IIIZ", "YIII,IYII,IIYI,IIIY", "XXII,ZZII,IIXX,IIZZ",
           "XXII,ZZII,IIZI,IIIX", "-XXXX,-ZZII,IZZI,IIZZ", "YZII,ZYZI,IZYZ,IIZY", "XZII,ZXII,IIXZ,IIZX"]


def adj_array(n, edges):
    a = np.zeros((n, n), dtype=int)
    for u, v in edges:
        a[u, v] = a[v, u] = 1
    return a


def graph_edges_of(obj, n):
    """edges of a returned graph object / adjacency array, vertices must be 0..n-1."""
    if isinstance(obj, nx.Graph):
        if sorted(obj.nodes()) != list(range(n)):
            return ("bad-nodes", sorted(map(str, obj.nodes())))
        return G.norm(obj.edges())
    a = np.asarray(obj)
    if a.shape != (n, n):
        return ("bad-shape", a.shape)
    return frozenset((i, j) for i in range(n) for j in range(i + 1, n) if abs(a[i, j]) > 0.5)


def check_graph(acc, n, edges, dense, tier):
    import graphiq.backends.state_rep_conversion as rc
    from graphiq.backends.stabilizer.functions.rep_conversion import get_stabilizer_tableau_from_graph
    from graphiq.state import QuantumState
    want_e = G.norm(edges)
    case0 = {"n": n, "edges": [list(e) for e in edges]}
    grp = P.graph_group(n, edges)
    vec = sv.graph_state(n, edges) if n <= 6 else None
    rho = sv.dm(vec) if dense else None
    inputs = {"nx": gq.nx_graph(n, edges), "array": adj_array(n, edges)}

    def call(sub, site, fn, case):
        acc.evaluations += 1
        acc.transitions += 1
        try:
            return True, fn()
        except Exception as e:
            acc.violation(sub, site, "raises-" + type(e).__name__, case, "a result", repr(e)[:200])
            return False, None

    for form, gin in inputs.items():
        case = dict(case0, form=form)
        if dense:
            ok, r = call("g2dm", "graph_to_density", lambda: rc.graph_to_density(gin), case)
            if ok and (np.asarray(r).shape != rho.shape or np.max(np.abs(np.asarray(r) - rho)) > 1e-9):
                acc.violation("g2dm", "graph_to_density", "density-is-not-graph-state", case, "|G><G|", "differs")
        ok, r = call("g2s", "graph_to_stabilizer", lambda: rc.graph_to_stabilizer(gin), case)
        if ok:
            try:
                if len(r) != 1 or abs(r[0][0] - 1.0) > 1e-12 or not gq.tableau_group(r[0][1]).same_state(grp):
                    acc.violation("g2s", "graph_to_stabilizer", "tableau-is-not-graph-state", case, grp.strings(), gq.tableau_group(r[0][1]).strings())
            except Exception as e:
                acc.violation("g2s", "graph_to_stabilizer", "malformed-result", case, "[(1.0, tableau)]", repr(e)[:200])
        ok, r = call("s2g", "state_to_graph", lambda: rc.state_to_graph(gin), case)
        if ok:
            check_s2g_result(acc, r, grp, case, "state_to_graph")
    ok, r = call("g2s", "get_stabilizer_tableau_from_graph", lambda: get_stabilizer_tableau_from_graph(inputs["nx"]), case0)
    if ok and not gq.tableau_group(r).same_state(grp):
        acc.violation("g2s", "get_stabilizer_tableau_from_graph", "tableau-is-not-graph-state", case0, grp.strings(), gq.tableau_group(r).strings())
    if dense:
        ok, r = call("dm2g", "density_to_graph", lambda: rc.density_to_graph(rho.copy()), case0)
        if ok:
            ge = graph_edges_of(r, n)
            if ge != want_e:
                acc.violation("dm2g", "density_to_graph", "recovered-graph-differs", case0, sorted(want_e), sorted(ge) if isinstance(ge, frozenset) else ge)
        ok, r = call("dm2s", "density_to_stabilizer", lambda: rc.density_to_stabilizer(rho.copy()), case0)
        if ok:
            try:
                if not gq.tableau_group(r[0][1]).same_state(grp):
                    acc.violation("dm2s", "density_to_stabilizer", "tableau-is-not-graph-state", case0, grp.strings(), gq.tableau_group(r[0][1]).strings())
            except Exception as e:
                acc.violation("dm2s", "density_to_stabilizer", "malformed-result", case0, "[(1.0, tableau)]", repr(e)[:200])
        ok, r = call("s2dm", "stabilizer_to_density", lambda: rc.stabilizer_to_density(gq.group_to_stabilizer_tableau(grp)), case0)
        if ok and (r is None or np.max(np.abs(np.asarray(r) - rho)) > 1e-9):
            acc.violation("s2dm", "stabilizer_to_density", "density-is-not-the-state", case0, "|G><G|", "differs" if r is not None else None)
    # stabilizer -> graph on presentations
    if n <= 3:
        pres = list(spaces.presentations(grp))
    else:
        pres = [grp]
        if tier == "thorough" or n == 4:
            for i, j in itertools.permutations(range(n), 2):
                gens = list(grp.gens)
                gens[i] = P.mul(gens[i], gens[j])
                pres.append(P.StabGroup(n, gens))
            for i, j in itertools.combinations(range(n), 2):
                gens = list(grp.gens)
                gens[i], gens[j] = gens[j], gens[i]
                pres.append(P.StabGroup(n, gens))
    for pg in pres:
        case = dict(case0, gens=pg.strings())
        ok, r = call("s2g", "stabilizer_to_graph", lambda: rc.stabilizer_to_graph(gq.group_to_stabilizer_tableau(pg)), case)
        if ok:
            try:
                ge = graph_edges_of(r[0][1], n)
                if len(r) != 1 or ge != want_e:
                    acc.violation("s2g", "stabilizer_to_graph", "recovered-graph-differs", case, sorted(want_e), sorted(ge) if isinstance(ge, frozenset) else ge)
            except Exception as e:
                acc.violation("s2g", "stabilizer_to_graph", "malformed-result", case, "[(1.0, graph)]", repr(e)[:200])
    # QuantumState: all ordered pairs, chained a -> b -> c
    if dense and n <= 4:
        for a, b, c in itertools.product("gsd", repeat=3):
            names = {"g": "g", "s": "s", "d": "dm"}
            case = dict(case0, chain=[names[a], names[b], names[c]])
            acc.evaluations += 1
            acc.transitions += 2
            try:
                if a == "g":
                    qs = QuantumState(gq.nx_graph(n, edges), rep_type="g")
                elif a == "s":
                    qs = QuantumState(gq.group_to_clifford_tableau(grp), rep_type="s")
                else:
                    qs = QuantumState(rho.copy(), rep_type="dm")
                qs.convert_representation(names[b])
                bad = denotes(qs, names[b], n, vec, grp, want_e)
                if bad:
                    acc.violation("convert", "convert_representation:%s->%s" % (names[a], names[b]), bad, case, "same state", bad)
                    continue
                qs.convert_representation(names[c])
                bad = denotes(qs, names[c], n, vec, grp, want_e)
                if bad:
                    acc.violation("convert", "convert_representation:%s->%s" % (names[b], names[c]), bad, case, "same state", bad)
            except Exception as e:
                import traceback
                tb = traceback.extract_tb(e.__traceback__)
                where = [f.name for f in tb if "graphiq" in f.filename]
                site = "convert_representation:" + (where[1] if len(where) > 1 else (where[0] if where else "?"))
                acc.violation("convert", site, "raises-" + type(e).__name__, case, "converted state", repr(e)[:200])
    acc.validated += 1
    acc.state((n, tuple(sorted(want_e))))
    if edges:
        acc.nontriv((n, tuple(sorted(want_e))))


def denotes(qs, rep, n, vec, grp, want_e):
    if qs.rep_type != rep:
        return "rep_type-not-updated"
    rd = qs.rep_data
    name = type(rd).__name__
    if rep == "dm":
        if name != "DensityMatrix" or np.max(np.abs(np.asarray(rd.data) - sv.dm(vec))) > 1e-9:
            return "density-differs"
    elif rep == "s":
        if name != "Stabilizer":
            return "wrong-representation-class-" + name
        bad = gq.tableau_invariant(rd.data)
        if bad:
            return "invalid-tableau"
        if not gq.tableau_group(rd.data).same_state(grp):
            return "stabilizer-state-differs"
    else:
        if name != "Graph":
            return "wrong-representation-class-" + name
        g = rd.data
        if not isinstance(g, nx.Graph) or G.norm((a, b) for a, b in g.edges()) != want_e or sorted(g.nodes()) != list(range(n)):
            return "graph-differs"
    return None


def check_s2g_result(acc, r, grp, case, site):
    """r = (graph, tableau, gate list): gates applied to the input state must give |graph> exactly."""
    n = grp.n
    try:
        graph, tab, gates = r
        if not isinstance(graph, nx.Graph):
            raise TypeError("first element is %s" % type(graph).__name__)
        if not isinstance(gates, list):
            raise TypeError("third element is %s" % type(gates).__name__)
    except Exception as e:
        acc.violation("s2g", site, "malformed-result", case, "(graph, tableau, gate list)", repr(e)[:200])
        return
    g2 = grp.copy()
    try:
        for gt in gates:
            nm = {"H": "H", "P": "P", "P_dag": "P_dag", "X": "X", "Y": "Y", "Z": "Z", "I": "I"}[gt[0]]
            g2.apply(nm, int(gt[1]))
        ge = graph_edges_of(graph, n)
        if not isinstance(ge, frozenset):
            raise ValueError(str(ge))
    except Exception as e:
        acc.violation("s2g", site, "malformed-result", case, "(graph, tableau, gate list)", repr(e)[:200])
        return
    want = P.graph_group(n, sorted(ge))
    if not g2.same_state(want):
        sym = "gates-map-state-onto-graph-state-only-up-to-signs" if g2.same_up_to_signs(want) else "gates-do-not-map-state-onto-graph-state"
        acc.violation("s2g", site, sym, case, want.strings(), {"after_gates": g2.strings(), "gates": [list(map(str, x)) for x in gates]})
    try:
        if tab is not None and not isinstance(tab, list) and not gq.tableau_group(tab).same_state(grp):
            acc.violation("s2g", site, "returned-tableau-is-not-the-input-state", case, grp.strings(), gq.tableau_group(tab).strings())
    except Exception as e:
        acc.violation("s2g", site, "malformed-result", case, "tableau", repr(e)[:200])


def check_order_consistency(acc, n, edges, order):
    """a graph whose vertices were inserted in a non-sorted order: every converter must read it with one and the same vertex->qubit convention."""
    import graphiq.backends.state_rep_conversion as rc
    from graphiq.backends.stabilizer.functions.rep_conversion import get_stabilizer_tableau_from_graph, get_clifford_tableau_from_graph
    from graphiq.state import QuantumState
    g = nx.Graph()
    g.add_nodes_from(order)
    g.add_edges_from(edges)
    pos = {v: i for i, v in enumerate(order)}
    conv = {"insertion-order": G.norm((pos[a], pos[b]) for a, b in edges), "sorted-labels": G.norm(edges)}
    case = {"n": n, "edges": [list(e) for e in edges], "insertion_order": list(order)}
    readings = {}

    def classify(name, state_edges_fn):
        acc.evaluations += 1
        acc.transitions += 1
        try:
            got = state_edges_fn()
        except Exception as e:
            acc.violation("order", name, "raises-" + type(e).__name__, case, "a state", repr(e)[:200])
            return
        hits = [k for k, e in conv.items() if got(e)]
        if not hits:
            acc.violation("order", name, "result-matches-no-vertex-order-convention", case, list(conv), "neither")
        readings[name] = hits

    def dm_matches(rho):
        return lambda e: np.max(np.abs(np.asarray(rho) - sv.dm(sv.graph_state(n, sorted(e))))) < 1e-9

    def grp_matches(tab):
        return lambda e: gq.tableau_group(tab).same_state(P.graph_group(n, sorted(e)))
    classify("graph_to_density", lambda: dm_matches(rc.graph_to_density(g.copy())))
    classify("graph_to_stabilizer", lambda: grp_matches(rc.graph_to_stabilizer(g.copy())[0][1]))
    classify("get_stabilizer_tableau_from_graph", lambda: grp_matches(get_stabilizer_tableau_from_graph(g.copy())))
    classify("get_clifford_tableau_from_graph", lambda: grp_matches(get_clifford_tableau_from_graph(g.copy())))

    def via_qs(rep):
        q = QuantumState(g.copy(), rep_type="g")
        q.convert_representation(rep)
        return dm_matches(q.rep_data.data) if rep == "dm" else grp_matches(q.rep_data.data)
    classify("QuantumState g->dm", lambda: via_qs("dm"))
    classify("QuantumState g->s", lambda: via_qs("s"))
    common = None
    for name, hits in readings.items():
        common = set(hits) if common is None else (common & set(hits))
    if readings and not common:
        acc.violation("order", "graph converters", "converters-disagree-on-vertex-order", case, "one convention for all", readings)
    acc.validated += 1
    acc.nontriv(("order", n, tuple(edges), tuple(order)))


def run_shard(shard, tier, acc):
    import graphiq.backends.state_rep_conversion as rc
    if shard["kind"] == "order":
        n = shard["n"]
        for edges in spaces.all_graphs(n):
            if not edges:
                continue
            for order in (list(range(n))[::-1], list(range(1, n)) + [0], [n - 1] + list(range(n - 1))):
                check_order_consistency(acc, n, list(edges), order)
        acc.sample({"n": n, "edges": [list(e) for e in edges], "insertion_order": order})
        return
    if shard["kind"] == "graph":
        n = shard["n"]
        pairs = list(itertools.combinations(range(n), 2))
        for mask in range(shard["lo"], shard["hi"]):
            edges = [p for i, p in enumerate(pairs) if (mask >> i) & 1]
            check_graph(acc, n, edges, shard["dense"], tier)
        acc.sample({"n": n, "edges": [list(e) for e in edges]})
    elif shard["kind"] == "s2g4":
        base = P.StabGroup.from_strings(["+" + g if g[0] not in "+-" else g for g in shard["state"].split(",")])
        if not all(P.commute(a, b) for a in base.gens for b in base.gens) or len({q.key() for q in [base]}) != 1 or abs(np.linalg.norm(base.vector()) - 1) > 1e-9:
            raise core.HarnessError("s2g4 state %s is not a stabilizer state" % shard["state"])
        for k, pg in enumerate(spaces.presentations(base)):
            if k % shard["parts"] != shard["part"]:
                continue
            case = {"n": 4, "gens": pg.strings(), "as": "StabilizerTableau"}
            acc.evaluations += 1
            acc.transitions += 1
            try:
                r = rc.state_to_graph(gq.group_to_stabilizer_tableau(pg))
            except Exception as e:
                acc.violation("s2g", "state_to_graph", "raises-" + type(e).__name__, case, "(graph, tableau, gates)", repr(e)[:200])
                continue
            check_s2g_result(acc, r, pg, case, "state_to_graph")
            acc.validated += 1
            acc.nontriv_fast(tuple(pg.gens))
        acc.state(base.key())
        acc.sample(case)
    else:
        n = shard["n"]
        st = spaces.stabilizer_states(n)
        for i in range(shard["lo"], min(shard["hi"], len(st))):
            for pg in spaces.presentations(st[i]):
                for kind in ("StabilizerTableau", "CliffordTableau"):
                    case = {"n": n, "gens": pg.strings(), "as": kind}
                    acc.evaluations += 1
                    acc.transitions += 1
                    try:
                        inp = gq.group_to_stabilizer_tableau(pg) if kind == "StabilizerTableau" else gq.group_to_clifford_tableau(pg)
                        r = rc.state_to_graph(inp)
                    except Exception as e:
                        acc.violation("s2g", "state_to_graph", "raises-" + type(e).__name__, case, "(graph, tableau, gates)", repr(e)[:200])
                        continue
                    check_s2g_result(acc, r, pg, case, "state_to_graph")
                    acc.validated += 1
                acc.nontriv(tuple(pg.gens))
            acc.state(st[i].key())
        acc.sample(case)


def replay_case(case, acc):
    import graphiq.backends.state_rep_conversion as rc
    if "edges" in case:
        check_graph(acc, case["n"], [tuple(e) for e in case["edges"]], case["n"] <= 5, "quick")
    else:
        pg = P.StabGroup.from_strings(case["gens"])
        inp = gq.group_to_stabilizer_tableau(pg) if case.get("as") == "StabilizerTableau" else gq.group_to_clifford_tableau(pg)
        try:
            r = rc.state_to_graph(inp)
        except Exception as e:
            acc.violation("s2g", "state_to_graph", "raises-" + type(e).__name__, case, "(graph, tableau, gates)", repr(e)[:200])
            return
        check_s2g_result(acc, r, pg, case, "state_to_graph")


PREDICATES = {}
