"""C09 - local-Clifford equivalence of graph states is decided correctly and constructively.

Oracle = the definition: Engine B on the reference (R5) partitions all labelled graphs on n vertices into local-complementation
orbits by breadth-first search.  Engine A: all ordered pairs n<=4, orbit-complete pairs n=5, through is_lc_equivalent (both modes),
Graph.lc_equivalent, find_lc_operations, converter_gate_list, lc_check (four input kinds); local complementation on every
(graph, vertex); lc_check on all ordered pairs of 2-qubit stabilizer states against R2 local-Clifford orbits.
"""
import itertools
import numpy as np
import networkx as nx

from .. import core, gq
from ..ref import statevec as sv, pauli as P, spaces, graphs as G

ID = "C09"
META = {
    "engine": "B (orbit partition of the reference by BFS) + A (all ordered pairs)",
    "rule": "a case = ordered pair of labelled graphs (or stabilizer states) with an entry point and mode; non-trivial = the two graphs differ and at least one has an edge; "
            "distinct = distinct (pair, entry point, mode)",
    "bounds": {"quick": "all ordered pairs n=2,3,4 (4 + 64 + 4096) both modes; n=5: every graph against every member of its own orbit and one representative of every other orbit (deterministic mode; random mode seed 0 on the same-orbit pairs); "
                        "local complementation on every (graph, vertex) n<=5; lc_check on all 3600 ordered pairs of 2-qubit stabilizer states",
               "thorough": "all 1 048 576 ordered pairs n=5; n=6: every graph against its orbit representative and two other representatives"},
    "assumptions": ["per-call horizon 20 s of CPU time (lc_graph_operations has unbounded while loops): exceeding it is reported as non-termination",
                    "random mode uses graphiq's own seeding (np.random.seed(seed)); seeds {0,1,2}"],
}
HORIZON = 20.0


def adj(n, edges):
    a = np.zeros((n, n), dtype=int)
    for u, v in edges:
        a[u, v] = a[v, u] = 1
    return a


def graphs_of(n):
    return [tuple(g) for g in spaces.all_graphs(n)]


def shards(tier):
    out = []
    for n in (1, 2, 3, 4, 5):
        ng = 1 << (n * (n - 1) // 2)
        for a in range(0, ng, 128):
            out.append({"kind": "lc", "n": n, "lo": a, "hi": min(ng, a + 128)})
    for n in (2, 3):
        out.append({"kind": "pairs", "n": n, "lo": 0, "hi": 1 << (n * (n - 1) // 2), "all": True})
    for a in range(0, 64, 2):
        out.append({"kind": "pairs", "n": 4, "lo": a, "hi": a + 2, "all": True})
    for a in range(0, 1024, 8):
        out.append({"kind": "pairs", "n": 5, "lo": a, "hi": a + 8, "all": tier == "thorough"})
    if tier == "thorough":
        for a in range(0, 32768, 256):
            out.append({"kind": "pairs", "n": 6, "lo": a, "hi": a + 256, "all": False, "reps_only": True})
    for a in range(0, 60, 4):
        out.append({"kind": "stab", "lo": a, "hi": a + 4})
    return out


def apply_gate_list(grp, gates):
    g = grp.copy()
    for gt in gates:
        g.apply({"H": "H", "P": "P", "P_dag": "P_dag", "X": "X", "Y": "Y", "Z": "Z", "I": "I"}[gt[0]], int(gt[1]))
    return g


def check_pair(acc, n, e1, e2, same, modes, deep):
    import graphiq.backends.lc_equivalence_check as lc
    from graphiq.backends.stabilizer.functions.local_cliff_equi_check import lc_check, converter_gate_list
    from graphiq.backends.graph.state import Graph
    a1, a2 = adj(n, e1), adj(n, e2)
    g1, g2 = P.graph_group(n, e1), P.graph_group(n, e2)
    base = {"n": n, "g1": [list(e) for e in e1], "g2": [list(e) for e in e2]}
    for mode, seed in modes:
        case = dict(base, mode=mode, seed=seed)
        acc.evaluations += 1
        acc.transitions += 1
        try:
            with core.time_limit(HORIZON):
                ans, sol = lc.is_lc_equivalent(a1.copy(), a2.copy(), mode=mode, seed=seed)
        except Exception as e:
            acc.violation("decide", "is_lc_equivalent:" + mode, "raises-" + type(e).__name__, case, same, repr(e)[:200])
            continue
        ans = bool(ans)
        if ans and not same:
            acc.violation("decide", "is_lc_equivalent:" + mode, "false-yes", case, False, True)
            continue
        if same and not ans:
            acc.violation("decide", "is_lc_equivalent:" + mode, "false-no", case, True, False)
            continue
        if ans:
            # the returned blocks: invertible, name one operator per qubit, conjugate |G1> onto |G2> up to signs
            try:
                sol = np.asarray(sol)
                ok = sol.shape == (n, 2, 2) and all((sol[i][0, 0] * sol[i][1, 1] + sol[i][0, 1] * sol[i][1, 0]) % 2 == 1 for i in range(n))
                names = lc.local_clifford_ops(sol)
                if not ok or len(names) != n:
                    acc.violation("solution", "is_lc_equivalent:" + mode, "solution-not-n-invertible-blocks", case, "n invertible 2x2 blocks", {"names": names})
                else:
                    gates = []
                    for i, nm in enumerate(names):
                        for op in nm.split()[::-1]:
                            gates.append((op, i))
                    if not apply_gate_list(g1, gates).same_up_to_signs(g2):
                        acc.violation("solution", "local_clifford_ops", "returned-cliffords-do-not-map-g1-to-g2", case, g2.strings(),
                                      {"names": names, "image": apply_gate_list(g1, gates).strings()})
            except Exception as e:
                acc.violation("solution", "local_clifford_ops", "raises-" + type(e).__name__, case, "gate names", repr(e)[:200])
        acc.validated += 1
    if not deep:
        return
    case = dict(base)
    # Graph.lc_equivalent
    acc.evaluations += 1
    try:
        with core.time_limit(HORIZON):
            ans, _ = Graph(gq.nx_graph(n, e1)).lc_equivalent(Graph(gq.nx_graph(n, e2)))
        if bool(ans) != same:
            acc.violation("decide", "Graph.lc_equivalent", "false-yes" if ans else "false-no", case, same, bool(ans))
    except Exception as e:
        acc.violation("decide", "Graph.lc_equivalent", "raises-" + type(e).__name__, case, same, repr(e)[:200])
    # complementation sequence
    if same:
        acc.evaluations += 1
        try:
            with core.time_limit(HORIZON):
                seq = lc.find_lc_operations(a1.copy(), a2.copy())
            cur = G.norm(e1)
            for v in seq:
                cur = G.local_complement(cur, int(v))
            if cur != G.norm(e2):
                acc.violation("sequence", "find_lc_operations", "sequence-does-not-transform-g1-into-g2", case, sorted(G.norm(e2)), {"sequence": [int(v) for v in seq], "reached": sorted(cur)})
        except TimeoutError as e:
            acc.violation("sequence", "find_lc_operations", "no-termination-within-horizon", case, "a sequence", str(e))
        except Exception as e:
            acc.violation("sequence", "find_lc_operations", "raises-" + type(e).__name__, case, "a sequence", repr(e)[:200])
    # gate lists
    inputs = {"nx": (gq.nx_graph(n, e1), gq.nx_graph(n, e2)), "array": (a1.copy(), a2.copy()),
              "StabilizerTableau": (gq.group_to_stabilizer_tableau(g1), gq.group_to_stabilizer_tableau(g2)),
              "CliffordTableau": (gq.group_to_clifford_tableau(g1), gq.group_to_clifford_tableau(g2))}
    for kind, (x1, x2) in inputs.items():
        acc.evaluations += 1
        c2 = dict(case, input=kind)
        try:
            with core.time_limit(HORIZON):
                ans, gates = lc_check(x1, x2)
        except Warning as e:
            acc.violation("gates", "lc_check", "own-validation-fails", c2, "gates mapping state1 to state2", repr(e)[:200])
            continue
        except Exception as e:
            acc.violation("gates", "lc_check", "raises-" + type(e).__name__, c2, same, repr(e)[:200])
            continue
        if bool(ans) != same:
            acc.violation("decide", "lc_check", "false-yes" if ans else "false-no", c2, same, bool(ans))
            continue
        if ans:
            try:
                img = apply_gate_list(g1, gates)
                if not img.same_state(g2):
                    sym = "gates-map-g1-to-g2-only-up-to-signs" if img.same_up_to_signs(g2) else "gates-do-not-map-g1-to-g2"
                    acc.violation("gates", "lc_check", sym, c2, g2.strings(), {"gates": [list(map(str, x)) for x in gates], "image": img.strings()})
            except Exception as e:
                acc.violation("gates", "lc_check", "malformed-gate-list", c2, "gate tuples", repr(e)[:200])
    # the same two labelled graphs with their vertices inserted in reverse order: the decision must not change
    # (which qubit a returned gate index refers to is not documented for such graphs, so only the answer is demanded)
    acc.evaluations += 1
    c3 = dict(case, input="nx, vertices inserted in reverse order")
    try:
        r1, r2 = nx.Graph(), nx.Graph()
        for g_, e_ in ((r1, e1), (r2, e2)):
            g_.add_nodes_from(range(n - 1, -1, -1))
            g_.add_edges_from(e_)
        with core.time_limit(HORIZON):
            ans, _ = lc_check(r1, r2)
        if bool(ans) != same:
            acc.violation("decide", "lc_check", "false-yes" if ans else "false-no", c3, same, bool(ans))
    except Warning as e:
        acc.violation("gates", "lc_check", "own-validation-fails", c3, "gates mapping state1 to state2", repr(e)[:200])
    except Exception as e:
        acc.violation("gates", "lc_check", "raises-" + type(e).__name__, c3, same, repr(e)[:200])
    if same:
        acc.evaluations += 1
        try:
            with core.time_limit(HORIZON):
                gates = converter_gate_list(gq.nx_graph(n, e1), gq.nx_graph(n, e2))
            img = apply_gate_list(g1, gates)
            if not img.same_state(g2):
                acc.violation("gates", "converter_gate_list", "gates-do-not-map-g1-to-g2-exactly", case, g2.strings(), {"gates": [list(map(str, x)) for x in gates], "image": img.strings()})
        except Exception as e:
            acc.violation("gates", "converter_gate_list", "raises-" + type(e).__name__, case, "a gate list", repr(e)[:200])


def run_shard(shard, tier, acc):
    import graphiq.backends.lc_equivalence_check as lc
    from graphiq.backends.graph.state import Graph
    kind = shard["kind"]
    if kind == "lc":
        n = shard["n"]
        gs = graphs_of(n)
        for gi in range(shard["lo"], shard["hi"]):
            e = gs[gi]
            for v in range(n):
                want = G.local_complement(G.norm(e), v)
                case = {"n": n, "edges": [list(x) for x in e], "vertex": v}
                acc.evaluations += 3
                acc.transitions += 3
                try:
                    r = lc.local_comp_graph(gq.nx_graph(n, e), v)
                    got = G.edges_of_nx(r, list(range(n))) if sorted(r.nodes()) == list(range(n)) else None
                    if got != want:
                        acc.violation("complement", "local_comp_graph", "wrong-graph", case, sorted(want), sorted(got) if got is not None else "bad nodes")
                    r2 = lc.local_comp_graph(r, v)
                    if G.edges_of_nx(r2, list(range(n))) != G.norm(e):
                        acc.violation("complement", "local_comp_graph", "not-an-involution", case, sorted(G.norm(e)), sorted(G.edges_of_nx(r2, list(range(n)))))
                except Exception as ex:
                    acc.violation("complement", "local_comp_graph", "raises-" + type(ex).__name__, case, sorted(want), repr(ex)[:200])
                for cp in (True, False):
                    try:
                        gobj = Graph(gq.nx_graph(n, e))
                        out = gobj.local_complementation(v, copy=cp)
                        got = G.norm(out.data.edges())
                        if got != want:
                            acc.violation("complement", "Graph.local_complementation", "wrong-graph", dict(case, copy=cp), sorted(want), sorted(got))
                        if cp and G.norm(gobj.data.edges()) != G.norm(e):
                            acc.violation("complement", "Graph.local_complementation", "copy=True-changed-the-original", dict(case, copy=cp), sorted(G.norm(e)), sorted(G.norm(gobj.data.edges())))
                    except Exception as ex:
                        acc.violation("complement", "Graph.local_complementation", "raises-" + type(ex).__name__, dict(case, copy=cp), sorted(want), repr(ex)[:200])
                acc.validated += 1
                if len(G.neighbours(G.norm(e), v)) >= 2:
                    acc.nontriv(("lc", n, gi, v))
        acc.sample(case)
    elif kind == "pairs":
        n = shard["n"]
        gs = graphs_of(n)
        ids, orbits = G.orbit_partition(n)
        acc.counters["reference_orbits_n%d" % n] = len(orbits)
        reps = [orb[0] for orb in orbits]
        modes_full = [("deterministic", 0), ("random", 0), ("random", 1), ("random", 2)]
        for gi in range(shard["lo"], min(shard["hi"], len(gs))):
            e1 = gs[gi]
            o1 = ids[frozenset(e1)]
            if shard.get("all"):
                others = gs
            elif shard.get("reps_only"):
                others = [tuple(sorted(reps[o1])), tuple(sorted(reps[(o1 + 1) % len(reps)])), tuple(sorted(reps[(o1 + 7) % len(reps)]))]
            else:
                others = [tuple(sorted(h)) for h in orbits[o1]] + [tuple(sorted(r)) for k, r in enumerate(reps) if k != o1]
            for e2 in others:
                same = ids[frozenset(e2)] == o1
                modes = modes_full if n <= 4 else ([("deterministic", 0), ("random", 0)] if (n == 5 and same) else [("deterministic", 0)])
                deep = n <= 4 or (same and (gi % 4 == 0))
                check_pair(acc, n, e1, e2, same, modes, deep)
                acc.state((n, o1, ids[frozenset(e2)]))
                if e1 != e2 and (e1 or e2):
                    acc.nontriv((n, gi, e2))
        acc.sample({"n": n, "g1": [list(x) for x in e1], "g2": [list(x) for x in e2], "same_orbit": same})
    elif kind == "stab":
        from graphiq.backends.stabilizer.functions.local_cliff_equi_check import lc_check
        st = spaces.stabilizer_states(2)
        # R2 local-Clifford orbits of 2-qubit stabilizer states (BFS over H_i, P_i)
        orb = {}
        for i, s in enumerate(st):
            if s.key() in orb:
                continue
            seen = {s.key()}
            fr = [s]
            while fr:
                nx_ = []
                for t in fr:
                    for g, q in itertools.product(("H", "P"), range(2)):
                        u = t.copy().apply(g, q)
                        if u.key() not in seen:
                            seen.add(u.key())
                            nx_.append(u)
                fr = nx_
            for k in seen:
                orb[k] = i
        for i in range(shard["lo"], shard["hi"]):
            for j in range(len(st)):
                stab_pair(acc, st[i], st[j], orb[st[i].key()] == orb[st[j].key()])
                acc.nontriv(("stab", i, j))


def stab_pair(acc, a, b, same):
    from graphiq.backends.stabilizer.functions.local_cliff_equi_check import lc_check
    case = {"n": a.n, "s1": a.strings(), "s2": b.strings()}
    acc.evaluations += 1
    acc.transitions += 1
    try:
        with core.time_limit(HORIZON):
            ans, gates = lc_check(gq.group_to_stabilizer_tableau(a), gq.group_to_stabilizer_tableau(b))
    except Warning as e:
        acc.violation("gates", "lc_check:stabilizer", "own-validation-fails", case, "gates", repr(e)[:200])
        return
    except Exception as e:
        acc.violation("gates", "lc_check:stabilizer", "raises-" + type(e).__name__, case, same, repr(e)[:200])
        return
    if bool(ans) != same:
        acc.violation("decide", "lc_check:stabilizer", "false-yes" if ans else "false-no", case, same, bool(ans))
    elif ans:
        img = apply_gate_list(a, gates)
        if not img.same_state(b):
            acc.violation("gates", "lc_check:stabilizer", "gates-do-not-map-s1-to-s2-exactly", case, b.strings(), img.strings())
    acc.validated += 1


def replay_case(case, acc):
    n = case["n"]
    if "g1" in case:
        e1, e2 = [tuple(e) for e in case["g1"]], [tuple(e) for e in case["g2"]]
        ids, orbits = G.orbit_partition(n)
        same = ids[frozenset(G.norm(e1))] == ids[frozenset(G.norm(e2))]
        modes = [(case["mode"], case.get("seed", 0))] if "mode" in case else [("deterministic", 0)]
        check_pair(acc, n, e1, e2, same, modes, True)
    elif "vertex" in case:
        pairs = list(itertools.combinations(range(n), 2))
        mask = sum(1 << pairs.index(tuple(e)) for e in case["edges"])
        run_shard({"kind": "lc", "n": n, "lo": mask, "hi": mask + 1}, "quick", acc)
    else:
        a, b = P.StabGroup.from_strings(case["s1"]), P.StabGroup.from_strings(case["s2"])
        # same local-Clifford orbit <=> b is reached from a by single-qubit H / P words (closure by search)
        seen, fr = {a.key()}, [a]
        while fr:
            nx_ = []
            for t in fr:
                for g, q in itertools.product(("H", "P"), range(a.n)):
                    u = t.copy().apply(g, q)
                    if u.key() not in seen:
                        seen.add(u.key()); nx_.append(u)
            fr = nx_
        stab_pair(acc, a, b, b.key() in seen)


def _either_disconnected(case):
    n = case["n"]
    return "g1" in case and (not spaces.is_connected(n, [tuple(e) for e in case["g1"]]) or not spaces.is_connected(n, [tuple(e) for e in case["g2"]]))


PREDICATES = {"a_graph_is_disconnected": _either_disconnected}
