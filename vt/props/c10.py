"""C10 - every alternate-target result generates the relabelled target.

Engine A: every connected graph n<=4/5 x a grid of solver settings (default setting included) x seeds; random LC-orbit methods with the
random draws owned by a deviation-bounded explorer.  For each result entry (circuit, graph, map): the circuit is executed by R1 over all
outcome branches and must end in |relabel(target, map)>|0..0>; the listed graph must lie in the R5 LC orbit of the renamed target; listed
graphs pairwise different; solver.result columns consistent; emission constraints of C04 hold for each circuit.
"""
import itertools
import numpy as np
import networkx as nx

from .. import core, gq
from ..explore import explore
from ..env import Owned
from ..ref import statevec as sv, spaces, graphs as G
from . import c04

ID = "C10"
META = {
    "engine": "A (targets x settings grid x seeds / owned random answers; all outcome branches of every returned circuit)",
    "rule": "a case = (target graph, setting, seed or generator answers); every entry of the returned list is checked; non-trivial = the result has >= 2 entries or a "
            "non-identity relabel map; distinct = distinct cases",
    "bounds": {"quick": "connected graphs n=3,4 (4+38) x {default setting, n_iso in {1,3} x n_lc in {1,3} x lc_method in {None, lc_with_iso, depth_first} x sort_emit (seeds {0,1} for n_iso=3, seed 0 otherwise)}; "
                        "random / random_with_iso / random_with_rep with n_iso in {1,2}, n_lc=2, draws owned (<=1 deviation) on all n=3 and every third n=4 graph; linear on paths 3..5, rgs on repeater graphs 4,6",
               "thorough": "connected graphs n=5 (728), n_iso up to 5, <=2 deviations"},
    "assumptions": ["targets are given as networkx graphs on vertices 0..n-1 and as QuantumState in the three representations (n<=4)",
                    "per-call horizon 60 s of CPU time"],
}
HORIZON = 60.0


def connected_graphs(n):
    return [tuple(g) for g in spaces.all_graphs(n) if spaces.is_connected(n, g)]


def make_setting(params):
    from graphiq.solvers.alternate_target_solver import AlternateTargetSolverSetting
    if params is None:
        return None
    kw = dict(n_iso_graphs=params["n_iso"], n_lc_graphs=params["n_lc"], lc_method=params["lc_method"], sort_emit=params.get("sort_emit", True))
    if "label_map" in params:
        kw["label_map"] = params["label_map"]
    if "lc_orbit_depth" in params:
        kw["lc_orbit_depth"] = params["lc_orbit_depth"]
    return AlternateTargetSolverSetting(**kw)


def make_target(n, edges, form):
    from graphiq.state import QuantumState
    if form == "nx":
        return gq.nx_graph(n, edges)
    if form == "nxr":
        # same labelled graph, vertices inserted in reverse order (photon i = i-th vertex in iteration order; the map is keyed by label)
        g = nx.Graph()
        g.add_nodes_from(range(n - 1, -1, -1))
        g.add_edges_from(edges)
        return g
    from .. import solverutil as su
    return su.make_target(n, edges, {"g": "g", "s": "s", "dm": "dm"}[form])


def check_results(acc, n, edges, res, solver, case):
    target = G.norm(edges)
    if not isinstance(res, list):
        acc.violation("result", "AlternateTargetSolver.solve", "result-not-a-list", case, "list", type(res).__name__)
        return
    listed = []
    for idx, entry in enumerate(res):
        c2 = dict(case, entry=idx)
        try:
            circ, info = entry
            g, rmap = info["g"], info["map"]
        except Exception as e:
            acc.violation("result", "AlternateTargetSolver.solve", "malformed-entry", c2, "(circuit, {g, map, score})", repr(e)[:200])
            continue
        m = {k: v for k, v in dict(rmap).items() if k != -1}
        if sorted(m.keys()) != list(range(n)) or sorted(m.values()) != list(range(n)):
            acc.violation("map", "AlternateTargetSolver.solve", "map-not-a-bijection", c2, "bijection on 0..n-1", str(rmap))
            continue
        renamed = G.norm((m[a], m[b]) for a, b in target)
        # circuit generates |renamed>
        layout = (circ.n_emitters, circ.n_photons, circ.n_classical)
        try:
            circ.validate()
        except Exception as e:
            acc.violation("circuit", "AlternateTargetSolver.solve", "circuit-invalid", c2, "valid", repr(e)[:200])
            continue
        bad = c04.invariant(circ, {})
        if bad is not None:
            acc.violation("circuit", "AlternateTargetSolver.solve", "emission-constraints: " + bad[0], c2, "C04 constraints", bad[1])
        if layout[1] != n or layout[0] + layout[1] > 9:
            acc.violation("circuit", "AlternateTargetSolver.solve", "wrong-photon-count", c2, n, layout[1])
            continue
        prog = gq.circuit_letters(circ)
        want = sv.graph_state(n, sorted(renamed))
        if layout[0]:
            want = sv.tensor(want, sv.zero(layout[0]))
        try:
            branches = gq.ref_branches(layout, prog)
        except Exception as e:
            acc.violation("generates", "AlternateTargetSolver.solve", "circuit-cannot-be-executed-by-the-reference", c2, "a circuit of the supported operations", repr(e)[:200])
            continue
        for outs, p, v, creg in branches:
            acc.transitions += 1
            if not sv.same_ray(v, want):
                acc.violation("generates", "AlternateTargetSolver.solve", "circuit-does-not-generate-the-renamed-target", dict(c2, outcomes=list(outs)),
                              sorted(renamed), {"overlap": sv.overlap2(v, want), "map": str(rmap), "g": sorted(G.norm(g.edges()))})
                break
        # listed graph LC-equivalent to the renamed target
        try:
            ge = G.edges_of_nx(g, list(range(n)))
        except Exception as e:
            acc.violation("graph", "AlternateTargetSolver.solve", "listed-graph-malformed", c2, "graph on 0..n-1", repr(e)[:200])
            continue
        if ge not in G.lc_orbit(n, renamed):
            acc.violation("graph", "AlternateTargetSolver.solve", "listed-graph-not-LC-equivalent-to-renamed-target", c2, sorted(renamed), sorted(ge))
        listed.append(ge)
    if len(set(listed)) != len(listed):
        acc.violation("dedup", "AlternateTargetSolver.solve", "two-entries-list-the-same-graph", case, "pairwise different", [sorted(x) for x in listed])
    # solver.result consistent with the returned list
    try:
        r = solver.result
        if r is not None and len(res) > 0:
            gs = r["g"]
            if len(gs) != len(res):
                acc.violation("result", "AlternateTargetSolver.result", "column-length-differs-from-list", case, len(res), len(gs))
    except Exception as e:
        acc.violation("result", "AlternateTargetSolver.result", "raises-" + type(e).__name__, case, "columns", repr(e)[:200])
    if len(res) >= 2 or any(-1 not in dict(e[1]["map"]) for e in res if isinstance(e, tuple)):
        acc.nontriv(core.jdump(case))


def run_case(acc, n, edges, form, params, seed, owned_dev):
    from graphiq.solvers.alternate_target_solver import AlternateTargetSolver
    case = {"n": n, "edges": [list(e) for e in edges], "form": form, "setting": params, "seed": seed}

    def once(ch):
        import warnings
        with warnings.catch_warnings():
            warnings.simplefilter("ignore")
            try:
                with core.time_limit(HORIZON):
                    solver = AlternateTargetSolver(target=make_target(n, edges, form), solver_setting=make_setting(params), seed=seed)
                    if ch is None:
                        return ("ok", solver.solve(), solver)
                    with Owned(ch, dev=True):
                        return ("ok", solver.solve(), solver)
            except BaseException as e:
                if isinstance(e, (KeyboardInterrupt, core.HarnessError)):
                    raise
                return ("exc", e, None)
    if owned_dev is None:
        runs = [(None, once(None))]
    else:
        runs = list(explore(lambda ch: once(ch), dev_bound=owned_dev, max_exec=300))
        if explore.capped:
            acc.caps_hit += 1
    for ch, (status, res, solver) in runs:
        acc.evaluations += 1
        c2 = dict(case, answers=ch.choices) if ch is not None else case
        if status == "exc":
            import traceback
            tb = traceback.extract_tb(res.__traceback__)
            where = [f.name for f in tb if "/graphiq/" in f.filename]
            acc.violation("solve", "AlternateTargetSolver.solve", "raises-%s@%s" % (type(res).__name__, where[-1] if where else "?"), c2, "a result list", repr(res)[:200])
            continue
        check_results(acc, n, edges, res, solver, c2)
        acc.validated += 1
        acc.state((n, tuple(sorted(G.norm(edges))), len(res)))


def grid(tier):
    g = [None]
    for n_iso, n_lc, meth, se in itertools.product((1, 3), (1, 3), (None, "lc_with_iso", "depth_first"), (True, False)):
        g.append({"n_iso": n_iso, "n_lc": n_lc, "lc_method": meth, "sort_emit": se})
    g.append({"n_iso": 2, "n_lc": 2, "lc_method": None, "sort_emit": True, "lc_orbit_depth": 1})
    return g


def shards(tier):
    out = []
    ns = (3, 4) if tier == "quick" else (3, 4, 5)
    for n in ns:
        gs = connected_graphs(n)
        step = 1 if n <= 4 else 4
        for a in range(0, len(gs), step):
            out.append({"kind": "grid", "n": n, "lo": a, "hi": min(len(gs), a + step)})
            if n <= 4 and (tier == "thorough" or n == 3 or a % 3 == 0):
                for meth in ("random", "random_with_iso", "random_with_rep"):
                    for n_iso in (1, 2):
                        out.append({"kind": "random", "n": n, "lo": a, "hi": min(len(gs), a + step), "meth": meth, "n_iso": n_iso})
    out = [{"kind": "special", "which": w} for w in ("l3", "l4", "l5", "r4", "r6")] + out
    return out


def run_shard(shard, tier, acc):
    kind = shard["kind"]
    if kind in ("grid", "random"):
        n = shard["n"]
        gs = connected_graphs(n)
        for gi in range(shard["lo"], shard["hi"]):
            edges = gs[gi]
            if kind == "grid":
                for params in grid(tier):
                    seeds = (0, 1) if (tier == "thorough" or (params is not None and params["n_iso"] == 3 and params["sort_emit"])) else (0,)
                    for seed in seeds:
                        run_case(acc, n, edges, "nx", params, seed, None)
                for params in (None, {"n_iso": 2, "n_lc": 2, "lc_method": None, "sort_emit": True}, {"n_iso": 1, "n_lc": 3, "lc_method": "depth_first", "sort_emit": False}):
                    run_case(acc, n, edges, "nxr", params, 0, None)
                if n <= 4:
                    for form in ("g", "s", "dm"):
                        run_case(acc, n, edges, form, {"n_iso": 2, "n_lc": 2, "lc_method": None, "sort_emit": True}, 0, None)
            else:
                for meth in (shard["meth"],):
                    for n_iso in (shard["n_iso"],):
                        params = {"n_iso": n_iso, "n_lc": 2, "lc_method": meth, "sort_emit": True}
                        if meth == "random_with_rep":
                            params["lc_orbit_depth"] = 2
                        run_case(acc, n, edges, "nx", params, 0, 1 if tier == "quick" else 2)
        acc.sample({"n": n, "edges": [list(e) for e in edges], "kind": kind})
    else:
        w = shard["which"]
        for m in ((int(w[1]),) if w[0] == "l" else ()):
            edges = [(i, i + 1) for i in range(m - 1)]
            for n_lc in (1, 3):
                run_case(acc, m, edges, "nx", {"n_iso": 1, "n_lc": n_lc, "lc_method": "linear", "sort_emit": True}, 0, None)
        for m in ((int(w[1]),) if w[0] == "r" else ()):
            h = m // 2
            edges = list(itertools.combinations(range(h), 2)) + [(i, h + i) for i in range(h)]
            for n_lc in (1, 3):
                run_case(acc, m, edges, "nx", {"n_iso": 1, "n_lc": n_lc, "lc_method": "rgs", "sort_emit": True}, 0, None)


def replay_case(case, acc):
    run_case(acc, case["n"], [tuple(e) for e in case["edges"]], case.get("form", "nx"), case["setting"], case.get("seed", 0),
             1 if "answers" in case else None)


PREDICATES = {}
