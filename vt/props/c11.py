"""C11 - the synthesised inverse circuit prepares exactly the given stabilizer state.

Engine A: every ordered generating set (all sign patterns included) of every stabilizer state on <= 3 qubits;
every labelled graph on <= 5/6 vertices.  Oracle: R1 applies the returned gate list to the state vector.
"""
import itertools
import numpy as np

from .. import core, gq
from ..ref import statevec as sv, pauli as P, spaces

ID = "C11"
META = {
    "engine": "A (exhaustive input enumeration)",
    "rule": "a case = one ordered generating set of one stabilizer state (or one labelled graph); non-trivial = the state is "
            "entangled or has a negative generator; distinct = distinct generating sets / graphs",
    "bounds": {"quick": "all presentations of all states n<=3 (6 + 360 + 181440); all 36720 states n=4 in two presentations (reduced and deliberately unreduced); n=5: all 32768 symmetric Gamma x Hadamard subsets {3,5,12,30} (inverse circuit only); all graphs n<=5",
               "thorough": "+ all 36720 states n=4 in canonical presentation with every single row addition; n=5: all 32768 Gamma x all 32 Hadamard subsets x 2 sign patterns = every 5-qubit stabilizer state up to signs, full check; all graphs n<=6"},
    "assumptions": ["R1 gate table for H,P,P_dag,X,Y,Z,CNOT,CZ"],
}
CHUNK = 15


def shards(tier):
    out = []
    for n in (1, 2, 3):
        ns = {1: 6, 2: 60, 3: 1080}[n]
        for a in range(0, ns, CHUNK if n == 3 else 60):
            out.append({"kind": "pres", "n": n, "lo": a, "hi": min(ns, a + (CHUNK if n == 3 else 60))})
    gmax = 5 if tier == "quick" else 6
    for n in range(1, gmax + 1):
        ng = 1 << (n * (n - 1) // 2)
        step = 512
        for a in range(0, ng, step):
            out.append({"kind": "graphs", "n": n, "lo": a, "hi": min(ng, a + step)})
    for a in range(0, 36720, 720):
        out.append({"kind": "s4", "lo": a, "hi": a + 720, "additions": tier == "thorough"})
    # 5 qubits: every stabilizer state is H_A (I | Gamma) for a symmetric binary Gamma (graph with loops = phase gates) and a subset A of qubits,
    # so (Gamma, A) enumerates all 75 735 states up to signs (with repetitions)
    subsets = (3, 5, 12, 30) if tier == "quick" else tuple(range(32))
    for A in subsets:
        for a in range(0, 1 << 15, 1 << 12):
            out.append({"kind": "lag5", "A": A, "lo": a, "hi": a + (1 << 12), "light": tier == "quick"})
    return out


def prepare(tier):
    spaces.stabilizer_states(4)  # built once in the parent; the forked workers share it


def apply_list(v, circ, reverse=False):
    seq = list(circ)
    if reverse:
        seq = seq[::-1]
    for g in seq:
        nm = g[0]
        if nm in ("CNOT", "CZ"):
            v = sv.cnot(v, g[1], g[2]) if nm == "CNOT" else sv.cz(v, g[1], g[2])
        else:
            if reverse and nm in ("P", "P_dag"):
                nm = "P_dag" if nm == "P" else "P"
            v = sv.apply1(v, sv.ONE_QUBIT[nm], g[1])
    return v


def lagrangian(n, mask, A, minus=0):
    """H_A applied to the state with generators X_q Z^{Gamma_q} (Gamma symmetric incl. diagonal, bit order: (i,j) i<=j row-major); sign - on generators in minus."""
    pairs = [(i, j) for i in range(n) for j in range(i, n)]
    adj = [0] * n
    for b, (i, j) in enumerate(pairs):
        if (mask >> b) & 1:
            adj[i] |= 1 << j
            adj[j] |= 1 << i
    gens = []
    for q in range(n):
        ph = 1 if (adj[q] >> q) & 1 else 0
        if (minus >> q) & 1:
            ph = (ph + 2) & 3
        gens.append((1 << q, adj[q], ph))
    g = P.StabGroup(n, gens)
    for q in range(n):
        if (A >> q) & 1:
            g.apply("H", q)
    return g


def check_presentation(acc, grp, case, with_vector=True, light=False):
    from graphiq.backends.stabilizer.functions.stabilizer import inverse_circuit
    from graphiq.backends.stabilizer.functions.transformation import run_circuit
    from graphiq.backends.stabilizer.functions.rep_conversion import clifford_from_stabilizer
    from graphiq.backends.stabilizer.clifford_tableau import CliffordTableau
    n = grp.n
    acc.evaluations += 1
    tab = gq.group_to_stabilizer_tableau(grp)
    try:
        t2, circ = inverse_circuit(tab.copy())
    except Exception as e:
        acc.violation("inverse", "inverse_circuit", "raises-" + type(e).__name__, case, "a circuit", repr(e)[:200])
        return
    circ = [tuple(int(x) if not isinstance(x, str) else x for x in g) for g in circ]
    acc.transitions += len(circ)
    # returned tableau = Z_i, all signs +
    if not (np.array_equal(t2.x_matrix, np.zeros((n, n))) and np.array_equal(t2.z_matrix, np.eye(n)) and not np.any(t2.phase)):
        acc.violation("inverse", "inverse_circuit", "returned-tableau-not-plus-Z", case, "x=0,z=I,phase=0",
                      {"x": t2.x_matrix.tolist(), "z": t2.z_matrix.tolist(), "phase": t2.phase.tolist()})
    if with_vector:
        v = grp.vector()
        w = apply_list(v, circ)
        if not sv.same_ray(w, sv.zero(n)):
            acc.violation("inverse", "inverse_circuit", "circuit-does-not-map-state-to-zero", case, "|0..0>",
                          {"circuit": circ, "result": sv.canon_ray(w, 6)})
        back = apply_list(sv.zero(n), circ, reverse=True)
        if not sv.same_ray(back, v):
            acc.violation("inverse", "inverse_circuit", "reversed-circuit-does-not-prepare-state", case, sv.canon_ray(v, 6),
                          sv.canon_ray(back, 6))
    else:
        # R2 route for n where vectors are not built: conjugate the group by the circuit
        g2 = grp.copy()
        for g in circ:
            g2.apply({"P": "P"}.get(g[0], g[0]), *g[1:])
        if not g2.same_state(P.StabGroup.zero(n)):
            acc.violation("inverse", "inverse_circuit", "circuit-does-not-map-state-to-zero", case, "+Z_i", g2.strings())
    if light:
        acc.validated += 1
        acc.nontriv_fast(tuple(grp.gens))
        return
    # reverse execution on a real Clifford tableau
    try:
        ct = run_circuit(CliffordTableau(n), list(circ), reverse=True)
        bad = gq.tableau_invariant(ct)
        if bad:
            acc.violation("reverse", "run_circuit", "invalid-tableau", case, "valid", bad)
        elif not gq.tableau_group(ct).same_state(grp):
            acc.violation("reverse", "run_circuit", "reverse-run-gives-other-state", case, grp.strings(), gq.tableau_group(ct).strings())
    except Exception as e:
        acc.violation("reverse", "run_circuit", "raises-" + type(e).__name__, case, "a tableau", repr(e)[:200])
    for nm, fn in (("clifford_from_stabilizer", lambda: clifford_from_stabilizer(tab.copy())),
                   ("CliffordTableau(StabilizerTableau)", lambda: CliffordTableau(tab.copy()))):
        try:
            ct = fn()
            bad = gq.tableau_invariant(ct)
            if bad:
                acc.violation("clifford", nm, "invalid-tableau", case, "valid", bad)
            elif not gq.tableau_group(ct).same_state(grp):
                acc.violation("clifford", nm, "tableau-represents-other-state", case, grp.strings(), gq.tableau_group(ct).strings())
        except Exception as e:
            acc.violation("clifford", nm, "raises-" + type(e).__name__, case, "a tableau", repr(e)[:200])
    acc.validated += 1
    k = grp.key()
    acc.state(k)
    if any(P.sign_of(g) == -1 for g in grp.gens) or any(not grp.is_product_qubit(q) for q in range(n)):
        acc.nontriv(tuple(grp.gens))


def run_shard(shard, tier, acc):
    kind = shard["kind"]
    if kind == "pres":
        n = shard["n"]
        states = spaces.stabilizer_states(n)
        for si in range(shard["lo"], shard["hi"]):
            for grp in spaces.presentations(states[si]):
                check_presentation(acc, grp, {"n": n, "gens": grp.strings()})
        acc.sample({"n": n, "gens": grp.strings()})
    elif kind == "s4":
        states = spaces.stabilizer_states(4)
        for si in range(shard["lo"], min(shard["hi"], len(states))):
            s = states[si]
            check_presentation(acc, s, {"n": 4, "gens": s.strings()}, with_vector=False)
            # a second, deliberately unreduced generating set of the same state: reversed order, each generator multiplied by its successor
            gens = list(s.gens)[::-1]
            gens = [P.mul(gens[k], gens[k + 1]) if k + 1 < 4 else gens[k] for k in range(4)]
            s2 = P.StabGroup(4, gens)
            check_presentation(acc, s2, {"n": 4, "gens": s2.strings()}, with_vector=False)
            for i, j in (itertools.permutations(range(4), 2) if shard.get("additions") else ()):
                gens = list(s.gens)
                gens[i] = P.mul(gens[i], gens[j])
                g2 = P.StabGroup(4, gens)
                check_presentation(acc, g2, {"n": 4, "gens": g2.strings()}, with_vector=False)
    elif kind == "lag5":
        for mask in range(shard["lo"], shard["hi"]):
            for minus in ((0,) if shard["light"] else (0, 0b10110)):
                grp = lagrangian(5, mask, shard["A"], minus)
                check_presentation(acc, grp, {"n": 5, "gens": grp.strings()}, with_vector=False, light=shard["light"])
        acc.sample({"n": 5, "gens": grp.strings()})
    elif kind == "graphs":
        from graphiq.backends.stabilizer.functions.rep_conversion import get_clifford_tableau_from_graph
        n = shard["n"]
        pairs = list(itertools.combinations(range(n), 2))
        for mask in range(shard["lo"], shard["hi"]):
            edges = [p for i, p in enumerate(pairs) if (mask >> i) & 1]
            case = {"n": n, "edges": [list(e) for e in edges]}
            acc.evaluations += 1
            try:
                ct = get_clifford_tableau_from_graph(gq.nx_graph(n, edges))
            except Exception as e:
                acc.violation("graph", "get_clifford_tableau_from_graph", "raises-" + type(e).__name__, case, "a tableau", repr(e)[:200])
                continue
            bad = gq.tableau_invariant(ct)
            want = P.graph_group(n, edges)
            if bad:
                acc.violation("graph", "get_clifford_tableau_from_graph", "invalid-tableau", case, "valid", bad)
            elif not gq.tableau_group(ct).same_state(want):
                acc.violation("graph", "get_clifford_tableau_from_graph", "tableau-represents-other-state", case, want.strings(),
                              gq.tableau_group(ct).strings())
            acc.validated += 1
            acc.state(("g", n, mask))
            if edges:
                acc.nontriv(("g", n, mask))
        acc.sample(case)


def replay_case(case, acc):
    if "gens" in case:
        grp = P.StabGroup.from_strings(case["gens"])
        check_presentation(acc, grp, case, with_vector=grp.n <= 3)
    else:
        n = case["n"]
        pairs = list(itertools.combinations(range(n), 2))
        mask = sum(1 << pairs.index(tuple(e)) for e in case["edges"])
        run_shard({"kind": "graphs", "n": n, "lo": mask, "hi": mask + 1}, "quick", acc)


PREDICATES = {}
