"""C12 - the circuit DAG stays structurally consistent under any edit history.

Engine B: explicit-state search over edit histories on a real CircuitDAG in lock-step with the R6 model
(one ordered list of operations per register).  Events are position based (wire, index), so a history is
replayable on a fresh object.
"""
import itertools
import networkx as nx
import numpy as np

from .. import core, gq
from ..ref.dagmodel import DagModel, qregs, cregs

ID = "C12"
META = {
    "engine": "B (explicit-state BFS over edit histories, lock-step with the R6 list-per-register model)",
    "rule": "state = (R6 model, normalised node/edge indexes) reached by an edit history on a real CircuitDAG; transition = one edit "
            "(add / insert_at every edge or compatible edge pair / remove every node / replace / unwrap / group / remove_identity / add register); "
            "non-trivial = the edit changed the circuit; distinct = distinct (state key, event)",
    "bounds": {"quick": "all histories of depth <= 4 from layouts (0,0,0),(1,1,1) and depth <= 3 from (2,1,1) over the full event menu with merging of equal states",
               "thorough": "depth 5 (4 from (2,1,1)... all layouts depth >= 4); depth <= 3 repeated without any merging (verdicts must agree)"},
    "assumptions": ["states with equal R6 model and equal (normalised) node_dict/edge_dict contents have the same futures w.r.t. the invariants "
                    "(thorough re-runs depth<=3 without merging to test this)",
                    "classical wires are only required not to break the DAG/source/sink conditions (insert_at does not thread them)"],
}
LAYOUTS = [(0, 0, 0), (1, 1, 1), (2, 1, 1)]


def letters_for(model):
    ne, npn, nc = model.count["e"], model.count["p"], model.count["c"]
    out = []
    if ne:
        out += [["1", "H", "e", 0], ["W", ["H", "P"], "e", 0]]
    if npn:
        out += [["1", "I", "p", 0], ["W", ["X", "I"], "p", 0], ["MZ", "p", 0, 0]]
    if ne and npn:
        out += [["CNOT", "e", 0, "p", 0], ["MCR", "e", 0, "p", 0, 0], ["CCNOT", "e", 0, "p", 0, 0], ["CNOT", "p", 0, "e", 0]]
    if ne >= 2:
        out += [["CNOT", "e", 0, "e", 1], ["CNOT", "e", 1, "e", 0], ["1", "P", "e", 1]]
    if ne >= 2 and npn:
        out += [["CNOT", "e", 1, "p", 0], ["MCR", "e", 1, "p", 0, 0]]
    # register-adding letters (next unused index) and one beyond (must be refused, nothing may change)
    out += [["1", "X", "e", ne], ["1", "H", "p", npn]]
    if ne:
        out += [["CNOT", "e", 0, "e", ne]]
    out += [["1", "X", "e", ne + 1]]
    return out


REPLACEMENTS = {"1": [["1", "X"], ["1", "I"], ["W", ["H", "P"]]], "W": [["1", "H"], ["W", ["P", "H", "P", "X"]]],
                "CNOT": [["CZ"]], "CZ": [["CNOT"]]}


def replacement_letters(letter):
    k = letter[0]
    out = []
    for rep in REPLACEMENTS.get(k, []):
        if k in ("1", "W"):
            new = [rep[0], rep[1], letter[2], letter[3]]
        else:
            new = [rep[0]] + list(letter[1:])
        if new != letter:
            out.append(new)
    return out


# ---- walking the real DAG ---------------------------------------------------------------

class Broken(Exception):
    pass


def wire_edges(circ, t, r):
    """edges (u,v,key) with key t+r, in path order from the register's input to its output."""
    key = "%s%d" % (t, r)
    node = "%s_in" % key
    out = []
    seen = set()
    while node != "%s_out" % key:
        nxt = [e for e in circ.dag.out_edges(node, keys=True) if e[2] == key]
        if len(nxt) != 1:
            raise Broken("wire %s: node %r has %d outgoing edges with that key" % (key, node, len(nxt)))
        e = nxt[0]
        if e in seen or len(out) > 10000:
            raise Broken("wire %s loops" % key)
        seen.add(e)
        out.append(e)
        node = e[1]
    return out


def apply_event_real(circ, ev):
    k = ev[0]
    if k == "add":
        circ.add(gq.make_op(ev[1]))
    elif k == "addF":
        op = gq.make_op(ev[1])
        op.add_labels("Fixed")
        circ.add(op)
    elif k == "insert":
        edges = []
        for t, r, idx in ev[2]:
            edges.append(wire_edges(circ, t, r)[idx])
        circ.insert_at(gq.make_op(ev[1]), edges)
    elif k == "remove":
        node = wire_edges(circ, ev[1], ev[2])[ev[3]][1]
        circ.remove_op(node)
    elif k == "replace":
        node = wire_edges(circ, ev[1], ev[2])[ev[3]][1]
        circ.replace_op(node, gq.make_op(ev[4]))
    elif k == "unwrap":
        circ.unwrap_nodes()
    elif k == "group":
        circ.group_one_qubit_gates()
    elif k == "rmid":
        circ.remove_identity()
    elif k == "addreg":
        {"e": circ.add_emitter_register, "p": circ.add_photonic_register, "c": circ.add_classical_register}[ev[1]]()
    else:
        raise ValueError(ev)


def apply_event_model(m, ev):
    k = ev[0]
    if k in ("add", "addF"):
        m.add(ev[1])
    elif k == "insert":
        m.insert(ev[1], {(t, r): idx for t, r, idx in ev[2]})
    elif k == "remove":
        m.remove(m.wires[(ev[1], ev[2])][ev[3]])
    elif k == "replace":
        m.replace(m.wires[(ev[1], ev[2])][ev[3]], ev[4])
    elif k == "unwrap":
        m.unwrap()
    elif k == "group":
        m.group()
    elif k == "rmid":
        m.remove_identity()
    elif k == "addreg":
        m.add_register(ev[1])


def fingerprint(circ):
    """complete structural fingerprint of the real object (used for 'failed edits change nothing')."""
    nodes = sorted((str(n), repr(gq.op_to_letter(d["op"])), type(d["op"]).__name__) for n, d in circ.dag.nodes(data=True))
    edges = sorted((str(u), str(v), k, d.get("reg_type"), d.get("reg")) for u, v, k, d in circ.dag.edges(keys=True, data=True))
    nd = sorted((k, tuple(map(str, v))) for k, v in circ.node_dict.items())
    ed = sorted((k, tuple(sorted(map(str, v)))) for k, v in circ.edge_dict.items())
    return core.h64(repr((nodes, edges, nd, ed, circ.n_emitters, circ.n_photons, circ.n_classical)))


def check_invariants(circ, m):
    """None or (symptom, detail)."""
    import graphiq.circuit.ops as ops
    dag = circ.dag
    if (circ.n_emitters, circ.n_photons, circ.n_classical) != (m.count["e"], m.count["p"], m.count["c"]):
        return "register-counts", {"real": [circ.n_emitters, circ.n_photons, circ.n_classical], "model": dict(m.count)}
    if not nx.is_directed_acyclic_graph(dag):
        return "cycle", None
    ins = {n for n, d in dag.nodes(data=True) if isinstance(d["op"], ops.Input)}
    outs = {n for n, d in dag.nodes(data=True) if isinstance(d["op"], ops.Output)}
    want_in = {"%s%d_in" % (t, i) for t in "epc" for i in range(m.count[t])}
    want_out = {"%s%d_out" % (t, i) for t in "epc" for i in range(m.count[t])}
    if ins != want_in or outs != want_out:
        return "io-nodes", {"inputs": sorted(ins), "outputs": sorted(outs)}
    src = {n for n, d in dag.in_degree() if d == 0}
    snk = {n for n, d in dag.out_degree() if d == 0}
    if src != ins or snk != outs:
        return "sources-sinks", {"sources": sorted(map(str, src)), "sinks": sorted(map(str, snk))}
    # quantum wires: one path each, visiting the model's operations in order; consistent op<->node map
    node_of = {}
    used_edges = set()
    for (t, r) in m.quantum_regs():
        try:
            path = wire_edges(circ, t, r)
        except Broken as e:
            return "wire-broken", str(e)
        used_edges |= set(path)
        key = "%s%d" % (t, r)
        all_key_edges = [e for e in dag.edges(keys=True) if e[2] == key]
        if len(all_key_edges) != len(path):
            return "wire-extra-edges", {"wire": key, "path": len(path), "edges": len(all_key_edges)}
        nodes = [e[1] for e in path[:-1]]
        ids = m.wires[(t, r)]
        got = [gq.op_to_letter(dag.nodes[n]["op"]) for n in nodes]
        want = [m.ops[i] for i in ids]
        if got != want:
            return "wire-order", {"wire": key, "real": got, "model": want}
        for n, i in zip(nodes, ids):
            if node_of.setdefault(i, n) != n:
                return "op-split-across-nodes", {"wire": key, "op": m.ops[i]}
        for e in path:
            d = dag.edges[e]
            if d.get("reg_type") != t or d.get("reg") != r:
                return "edge-attributes", {"edge": [str(x) for x in e], "data": {k: str(v) for k, v in d.items()}}
    if len(set(node_of.values())) != len(node_of):
        return "two-ops-one-node", None
    op_nodes = set(dag.nodes) - ins - outs
    if op_nodes != set(node_of.values()):
        return "stray-or-missing-nodes", {"real": sorted(map(str, op_nodes)), "mapped": sorted(map(str, node_of.values()))}
    for i, n in node_of.items():
        qk = sorted("%s%d" % r for r in qregs(m.ops[i]))
        ik = sorted(k for _, _, k in dag.in_edges(n, keys=True) if not k.startswith("c"))
        ok = sorted(k for _, _, k in dag.out_edges(n, keys=True) if not k.startswith("c"))
        if ik != qk or ok != qk:
            return "node-wire-keys", {"op": m.ops[i], "in": ik, "out": ok}
    # label index
    want_nd = {}
    for n, d in dag.nodes(data=True):
        op = d["op"]
        if isinstance(op, ops.Input):
            keys = ["Input"]
        elif isinstance(op, ops.Output):
            keys = ["Output"]
        else:
            # the register-type key is derived here, not through graphiq's own helper
            keys = list(op.labels) + [type(op).__name__, "-".join({"e": "Emitter", "p": "Photonic"}[t] for t in op.q_registers_type)]
        for k in keys:
            want_nd.setdefault(k, []).append(n)
    for k, lst in circ.node_dict.items():
        if len(lst) != len(set(lst)):
            return "node_dict-duplicates", {"key": k, "list": list(map(str, lst))}
        if k not in want_nd and lst and not _known_index_key(k):
            # an index key the harness cannot derive from labels / class / register types: only demand that it holds live nodes
            if not set(lst) <= set(dag.nodes):
                return "node_dict-stale-or-missing", {"key": k, "index": sorted(map(str, lst)), "graph": "(unknown key) contains ids that are not nodes"}
            continue
        if set(lst) != set(want_nd.get(k, [])):
            return "node_dict-stale-or-missing", {"key": k, "index": sorted(map(str, lst)), "graph": sorted(map(str, want_nd.get(k, [])))}
    for k in want_nd:
        if k not in circ.node_dict:
            return "node_dict-missing-key", {"key": k}
    # edge index
    want_ed = {}
    for u, v, k, d in dag.edges(keys=True, data=True):
        want_ed.setdefault(d.get("reg_type"), []).append((u, v, k))
    for k, lst in circ.edge_dict.items():
        if len(lst) != len(set(lst)) or set(lst) != set(want_ed.get(k, [])):
            return "edge_dict-disagrees", {"key": k, "index": sorted(map(str, lst)), "graph": sorted(map(str, want_ed.get(k, [])))}
    for k in want_ed:
        if k not in circ.edge_dict:
            return "edge_dict-missing-key", {"key": k}
    # queries
    for labels in (["one-qubit"], ["two-qubit"], ["Input"], ["OneQubitGateWrapper"], ["Emitter"], ["one-qubit", "Photonic"]):
        if all(l in circ.node_dict for l in labels):
            got = circ.get_node_by_labels(labels)
            want = set(dag.nodes)
            for l in labels:
                want &= set(want_nd.get(l, []))
            if set(got) != want or len(got) != len(set(got)):
                return "get_node_by_labels", {"labels": labels}
            got = circ.get_node_exclude_labels(labels)
            want = set(dag.nodes)
            for l in labels:
                want -= set(want_nd.get(l, []))
            if set(got) != want or len(got) != len(set(got)):
                return "get_node_exclude_labels", {"labels": labels}
    # sequence is a topological order with each operation once
    seq = circ.sequence()
    if len(seq) != dag.number_of_nodes() or len({id(o) for o in seq}) != len(seq):
        return "sequence-multiplicity", None
    pos = {id(o): i for i, o in enumerate(seq)}
    for u, v in dag.edges():
        if pos[id(dag.nodes[u]["op"])] >= pos[id(dag.nodes[v]["op"])]:
            return "sequence-not-topological", {"edge": [str(u), str(v)]}
    useq = [l for l in (gq.op_to_letter(o) for o in circ.sequence(unwrapped=True)) if l is not None]
    wseq = [l for l in (gq.op_to_letter(o) for o in seq) if l is not None]
    if useq != gq.unwrap_letters(wseq):
        return "unwrapped-sequence", {"unwrapped": useq, "expected": gq.unwrap_letters(wseq)}
    return None


_VOCAB = None


def _known_index_key(k):
    """keys whose meaning the harness knows: operation labels used by graphiq, operation class names, register-type descriptions."""
    global _VOCAB
    if _VOCAB is None:
        import inspect
        import graphiq.circuit.ops as ops
        _VOCAB = {"one-qubit", "two-qubit", "Fixed", "Input", "Output", "Emitter", "Photonic"}
        _VOCAB |= {a + "-" + b for a in ("Emitter", "Photonic") for b in ("Emitter", "Photonic")}
        _VOCAB |= {n for n, c in inspect.getmembers(ops, inspect.isclass)}
    return k in _VOCAB


def index_key(circ, m):
    """normalised node_dict / edge_dict contents: node ids renamed by (first wire, position)."""
    name = {}
    for (t, r) in m.quantum_regs():
        try:
            for j, e in enumerate(wire_edges(circ, t, r)[:-1]):
                name.setdefault(e[1], "%s%d.%d" % (t, r, j))
        except Broken:
            return "broken"

    def nm(n):
        return name.get(n, str(n))
    nd = tuple(sorted((k, tuple(sorted(nm(x) for x in v))) for k, v in circ.node_dict.items() if v))
    ed = tuple(sorted((k, tuple(sorted((nm(a), nm(b), c) for a, b, c in v))) for k, v in circ.edge_dict.items() if v))
    return core.h64(repr((nd, ed)))


# ---- events enabled in a state -----------------------------------------------------------

def events(circ, m):
    evs = []
    letters = letters_for(m)
    for l in letters:
        evs.append(("add", l))
    if letters and m.can_ensure(letters[0]):
        evs.append(("addF", letters[0]))  # an operation carrying an extra label, as the solvers' "Fixed" operations do
    for l in letters:
        if not m.can_ensure(l):
            continue
        qs = qregs(l)
        if any(r not in m.wires for r in qs):
            continue  # insert_at on a register that does not exist yet has no edge to name
        if len(qs) == 1:
            (t, r), = qs
            for idx in range(len(m.wires[(t, r)]) + 1):
                evs.append(("insert", l, [[t, r, idx]]))
        else:
            (t1, r1), (t2, r2) = qs
            for i in range(len(m.wires[(t1, r1)]) + 1):
                for j in range(len(m.wires[(t2, r2)]) + 1):
                    evs.append(("insert", l, [[t1, r1, i], [t2, r2, j]]))
    for i in sorted(m.ops):
        l = m.ops[i]
        t, r = qregs(l)[0]
        idx = m.wires[(t, r)].index(i)
        evs.append(("remove", t, r, idx))
        for nl in replacement_letters(l):
            evs.append(("replace", t, r, idx, nl))
    evs += [("unwrap",), ("group",), ("rmid",), ("addreg", "e"), ("addreg", "p"), ("addreg", "c")]
    return evs


def build(layout, hist):
    from graphiq.circuit.circuit_dag import CircuitDAG
    circ = CircuitDAG(n_emitter=layout[0], n_photon=layout[1], n_classical=layout[2])
    m = DagModel(*layout)
    for ev in hist:
        apply_event_real(circ, ev)
        apply_event_model(m, ev)
    return circ, m


def initial_states(tier):
    out = []
    for lay in LAYOUTS:
        circ, m = build(lay, [])
        k = (m.canon(), index_key(circ, m))
        out.append((k, (lay, ())))
    return out


MERGE = True


def expand(blob, tier, acc):
    layout, hist = blob
    if tuple(layout) == (2, 1, 1) and len(hist) >= (3 if tier == "quick" else 4):
        return []  # the widest layout has the largest event menu: depth 3 (quick) / 4 (thorough) from it, depth 4 / 5 from the others
    circ0, m0 = build(layout, list(hist))
    res = []
    for ev in events(circ0, m0):
        acc.evaluations += 1
        acc.transitions += 1
        case = {"layout": list(layout), "history": [list(e) for e in hist], "event": list(ev)}
        site = ev[0]
        circ = circ0.copy()
        m = m0.copy()
        # query the object before editing it (anything it memoises must be invalidated by the edit)
        try:
            circ.sequence()
            circ.sequence(unwrapped=True)
            circ.depth
            circ.register_depth
        except Exception:
            pass
        fp0 = fingerprint(circ)
        # two-register insertions: ask the circuit whether the pair is compatible
        if ev[0] == "insert" and len(ev[2]) == 2:
            try:
                e1 = wire_edges(circ, *ev[2][0][:2])[ev[2][0][2]]
                e2 = wire_edges(circ, *ev[2][1][:2])[ev[2][1][2]]
                if e2 in circ.find_incompatible_edges(e1):
                    acc.refusal("edge pair reported incompatible")
                    continue
            except Exception as e:
                acc.violation("compat", "find_incompatible_edges", "raises-" + type(e).__name__, case, "a set", repr(e)[:200])
                continue
        legal = ev[0] not in ("add", "addF", "insert") or m.can_ensure(ev[1])
        try:
            apply_event_real(circ, ev)
        except Exception as e:
            if fingerprint(circ) != fp0:
                acc.violation("failed-edit", site, "raises-%s-and-leaves-circuit-changed" % type(e).__name__, case,
                              "unchanged circuit after a failed edit", repr(e)[:200])
            elif legal and ev[0] == "group" and not (m0.count["e"] or m0.count["p"] or m0.count["c"]):
                acc.refusal("group on a circuit without registers raises %s" % type(e).__name__)
            elif legal:
                acc.violation("raises", site, "raises-" + type(e).__name__, case, "the edit is applied", repr(e)[:200])
            else:
                acc.refusal("non-contiguous register refused (%s)" % type(e).__name__)
            continue
        if not legal:
            acc.violation("refusal", site, "non-contiguous-register-accepted", case, "ValueError", "accepted")
            continue
        apply_event_model(m, ev)
        mut = gq.check_shared_lists()
        if mut is not None:
            acc.violation("invariant", site, "shared-wrapper-operations-list-mutated", case, "unchanged", mut)
            continue
        bad = check_invariants(circ, m)
        if bad is not None:
            acc.violation("invariant", site, bad[0], case, "consistent circuit", bad[1])
            continue
        acc.validated += 1
        if m.canon() != m0.canon():
            acc.nontriv_fast((repr(m0.canon()), repr(ev)))
        key = (m.canon(), index_key(circ, m)) if MERGE else core.jdump([list(layout), [list(e) for e in hist + (ev,)]])
        res.append((key, (layout, hist + (ev,))))
    return res


def run(tier, seed):
    from .. import bfs
    depth = 4 if tier == "quick" else 5
    total = bfs.search("vt.props.c12", tier, max_depth=depth, chunk=8)
    if tier == "thorough":
        # the same search without any state merging (key = the history itself); any verdict difference shows up as a violation here
        global MERGE
        MERGE = False
        try:
            plain = bfs.search("vt.props.c12", tier, max_depth=3, chunk=8)
        finally:
            MERGE = True
        plain.states = set()
        total.merge(plain)
        total.counters["unmerged_histories_depth3"] = plain.counters.get("bfs_states", 0)
    total.sample({"layout": [1, 1, 1], "history": [["add", ["CNOT", "e", 0, "p", 0]], ["insert", ["1", "H", "e", 0], [["e", 0, 0]]], ["group"]]})
    return total


def replay_case(case, acc):
    layout = tuple(case["layout"])
    hist = tuple(_tup(e) for e in case["history"])
    circ0, m0 = build(layout, list(hist))
    ev = _tup(case["event"])
    old = events
    try:
        globals()["events"] = lambda c, m: [ev]
        expand((layout, hist), "quick", acc)
    finally:
        globals()["events"] = old


def _tup(e):
    return tuple(e)


PREDICATES = {}
