"""C13 - circuit rewrites preserve the state; library calls do not mutate their inputs.

Engine A over call histories: every sequence of <= k calls from a menu (copy, unwrap, group, remove identity, empty / real noise
map, compile with both back ends, metrics, comparison, export) on one shared circuit object, and solver / metric calls on one
shared target state.  Oracle: R1 signature of the original program, deep behaviour fingerprints before/after each call.
"""
import copy as _copy
import itertools
import numpy as np

from .. import core, gq, solverutil as su
from ..ref import statevec as sv, pauli as P, spaces
from . import c01

ID = "C13"
META = {
    "engine": "A (all call histories up to a bound on shared objects)",
    "rule": "a case = (program, call history); after every call the circuit the history continues with must denote the original state (R1 mixture of final states, "
            "and both real compilers on a deep copy) and, for non-rewriting calls, have an identical deep fingerprint (operations, registers, noise objects); "
            "non-trivial = history contains a rewriting or noise-deriving call followed by another call; distinct = distinct (program, history)",
    "bounds": {"quick": "30 programs x all histories of <= 2 calls over a 17-call menu, 12 programs x all histories of 3 calls; targets: all graphs n<=3 x 3 forms x all orders of 3 calls",
               "thorough": "28 programs x all histories of <= 3 calls; targets n<=4"},
    "assumptions": ["python's copy.deepcopy is used by the harness (not by the subject) to take behaviour snapshots",
                    "compile under noise_simulation=True with the density-matrix back end exposes any noise object attached to an operation"],
}
LAYOUT = (1, 1, 1)
PROGRAMS = [
    [], [["1", "H", "e", 0]], [["W", ["H", "P"], "e", 0]], [["1", "I", "p", 0], ["1", "H", "p", 0]],
    [["1", "H", "e", 0], ["CNOT", "e", 0, "p", 0]],
    [["1", "H", "e", 0], ["1", "P", "e", 0], ["CNOT", "e", 0, "p", 0]],
    [["W", ["H", "P"], "e", 0], ["CNOT", "e", 0, "p", 0], ["W", ["P", "H"], "p", 0]],
    [["1", "H", "e", 0], ["CNOT", "e", 0, "p", 0], ["1", "H", "e", 0], ["MCR", "e", 0, "p", 0, 0]],
    [["1", "H", "e", 0], ["CNOT", "e", 0, "p", 0], ["MCR", "e", 0, "p", 0, 0], ["1", "H", "e", 0]],
    [["1", "H", "p", 0], ["MZ", "p", 0, 0], ["1", "X", "e", 0]],
    [["1", "H", "e", 0], ["CCNOT", "e", 0, "p", 0, 0], ["1", "P", "p", 0]],
    [["1", "H", "e", 0], ["1", "I", "e", 0], ["1", "P", "e", 0], ["1", "H", "e", 0]],
    [["W", ["X", "I"], "p", 0], ["1", "H", "p", 0], ["W", ["H", "P", "H", "P"], "p", 0]],
    [["1", "H", "e", 0], ["CZ", "e", 0, "p", 0], ["1", "H", "p", 0]],
    [["1", "Pdag", "e", 0], ["1", "Y", "p", 0], ["CNOT", "p", 0, "e", 0]],
    [["1", "H", "e", 0], ["CNOT", "e", 0, "p", 0], ["1", "P", "p", 0], ["1", "H", "p", 0], ["1", "I", "p", 0]],
    [["W", ["P", "H", "P", "X"], "e", 0], ["W", ["H"], "e", 0], ["CNOT", "e", 0, "p", 0]],
    [["1", "H", "e", 0], ["CNOT", "e", 0, "p", 0], ["CCZ", "p", 0, "e", 0, 0]],
    [["1", "X", "e", 0], ["MCR", "e", 0, "p", 0, 0]],
    [["1", "H", "p", 0], ["1", "H", "e", 0], ["CZ", "p", 0, "e", 0], ["MZ", "e", 0, 0]],
    [["1", "I", "e", 0]], [["1", "I", "e", 0], ["1", "I", "p", 0]],
    [["W", ["I", "I"], "e", 0], ["1", "H", "e", 0]],
    [["1", "Z", "e", 0], ["1", "H", "e", 0], ["1", "Z", "e", 0], ["CNOT", "e", 0, "p", 0], ["1", "X", "p", 0]],
    [["1", "H", "e", 0], ["CNOT", "e", 0, "p", 0], ["W", ["H", "P"], "e", 0], ["MCR", "e", 0, "p", 0, 0], ["W", ["P", "H"], "e", 0]],
    [["MZ", "e", 0, 0]], [["1", "H", "e", 0], ["MZ", "e", 0, 0], ["1", "H", "e", 0], ["MZ", "e", 0, 0]],
    [["1", "P", "p", 0], ["1", "P", "p", 0], ["1", "H", "p", 0], ["1", "P", "p", 0], ["1", "P", "p", 0]],
    [["1", "H", "e", 0], ["W", ["H", "P"], "e", 0], ["CNOT", "e", 0, "p", 0], ["W", ["H", "P"], "p", 0]],
    [["W", ["P", "H"], "p", 0], ["1", "X", "e", 0], ["W", ["P", "H"], "e", 0], ["1", "Z", "e", 0], ["CZ", "e", 0, "p", 0], ["W", ["P", "H"], "p", 0]],
]
CALLS = ["copy", "unwrap", "group", "rmid", "noise_empty", "noise_real", "compile_stab", "compile_dm_noise", "compile_dm",
         "infidelity", "metrics", "compare_direct", "compare_iso", "export", "compile_twice", "compile_init", "mc_noise"]
INIT_INDEX = 23  # a 2-qubit stabilizer state used as the caller-owned initial state
REWRITES = {"unwrap", "group", "rmid"}
RETURNS_EQUIVALENT = {"copy", "noise_empty"}


def noise_map(real):
    import graphiq.noise.noise_models as nm
    if not real:
        return {k: {} for k in ("e", "p", "ee", "ep", "pe", "pp")}
    dep = nm.DepolarizingNoise(0.25)
    return {"e": {"Hadamard": nm.DepolarizingNoise(0.25), "Phase": nm.DepolarizingNoise(0.5), "SigmaX": nm.DepolarizingNoise(0.25),
                  "Identity": nm.DepolarizingNoise(0.25)},
            "p": {"Hadamard": nm.DepolarizingNoise(0.25), "Phase": nm.DepolarizingNoise(0.5), "Identity": nm.DepolarizingNoise(0.25)},
            "ee": {"CNOT": nm.DepolarizingNoise(0.25)}, "ep": {"CNOT": [nm.DepolarizingNoise(0.25), nm.DepolarizingNoise(0.5)], "CZ": nm.DepolarizingNoise(0.25)},
            "pe": {"CNOT": nm.DepolarizingNoise(0.25), "CZ": nm.DepolarizingNoise(0.25)}, "pp": {}}


def noise_desc(n):
    if isinstance(n, (list, tuple)):
        return [noise_desc(x) for x in n]
    if isinstance(n, type):
        return "class:" + n.__name__
    d = getattr(n, "noise_parameters", None)
    return type(n).__name__ + ":" + repr(sorted((k, repr(v)) for k, v in d.items()) if isinstance(d, dict) else d)


def fingerprint(circ):
    ops_desc = []
    for op in circ.sequence():
        l = gq.op_to_letter(op)
        if l is None:
            continue
        ops_desc.append((repr(l), repr(noise_desc(op.noise)), repr(getattr(op, "params", None)), repr(sorted(op.labels))))
    return (circ.n_emitters, circ.n_photons, circ.n_classical, tuple(ops_desc))


def ref_forced(layout, letters, setting):
    qi = gq.qindex(layout)
    v = sv.zero(layout[0] + layout[1])
    for l in gq.unwrap_letters(letters):
        if gq.is_measuring(l):
            p = sv.prob_z(v, qi(l[1], l[2]))
            o = setting if p[setting] > 1e-9 else 1 - setting
            v, _ = gq.ref_apply(v, l, qi, o)
        else:
            v, _ = gq.ref_apply(v, l, qi)
    return v


def ref_forced_from(layout, letters, setting, v0):
    qi = gq.qindex(layout)
    v = v0
    for l in gq.unwrap_letters(letters):
        if gq.is_measuring(l):
            p = sv.prob_z(v, qi(l[1], l[2]))
            o = setting if p[setting] > 1e-9 else 1 - setting
            v, _ = gq.ref_apply(v, l, qi, o)
        else:
            v, _ = gq.ref_apply(v, l, qi)
    return v


def make_inits():
    from ..ref import spaces
    from graphiq.state import QuantumState
    grp = spaces.stabilizer_states(2)[INIT_INDEX]
    return {"stab": QuantumState(gq.group_to_clifford_tableau(grp), rep_type="s"), "dm": QuantumState(sv.dm(grp.vector()), rep_type="dm")}


def mix_sig(layout, letters):
    sig = {}
    for outs, p, v, creg in gq.ref_branches(layout, letters):
        k = sv.canon_ray(v, 6)
        sig[k] = sig.get(k, 0.0) + p
    return tuple(sorted((k, round(p, 9)) for k, p in sig.items()))


def behaviour_ok(circ, layout, vref):
    """None, or a symptom: both compilers on a deep copy give the reference forced-1 state (noise simulation on for dm)."""
    n = layout[0] + layout[1]
    for backend, noise in (("stab", False), ("dm", True)):
        c2 = _copy.deepcopy(circ)
        comp = su.compiler(backend, 1)
        comp.noise_simulation = noise
        try:
            st = comp.compile(c2)
        except Exception as e:
            return "compile-%s-raises-%s" % (backend, type(e).__name__)
        bad = c01.state_matches(backend, st.rep_data.data, vref, n)
        if bad is not None:
            return "compile-%s-gives-another-state (%s)" % (backend, bad)
    return None


def do_call(name, circ, layout, ctx):
    """perform the call; returns (object the history continues with, list of (object, must_be_unchanged_fingerprint))."""
    import graphiq.metrics as gm
    from graphiq.state import QuantumState
    if name == "copy":
        return circ.copy()
    if name == "unwrap":
        circ.unwrap_nodes()
        return circ
    if name == "group":
        circ.group_one_qubit_gates()
        return circ
    if name == "rmid":
        circ.remove_identity()
        return circ
    if name == "noise_empty":
        return circ.assign_noise(noise_map(False))
    if name == "noise_real":
        circ.assign_noise(noise_map(True))
        return circ
    if name in ("compile_stab", "compile_dm", "compile_dm_noise"):
        comp = su.compiler("stab" if name == "compile_stab" else "dm", 1)
        comp.noise_simulation = name == "compile_dm_noise"
        comp.compile(circ)
        return circ
    if name == "compile_twice":
        comp = su.compiler("dm", 0)
        a = comp.compile(circ).rep_data.data.copy()
        b = comp.compile(circ).rep_data.data
        if not np.array_equal(a, b):
            ctx["viol"].append(("repeat", "compile", "two-deterministic-compiles-differ"))
        comp = su.compiler("stab", 0)
        a = comp.compile(circ).rep_data.data
        b = comp.compile(circ).rep_data.data
        if not (np.array_equal(a.table, b.table) and np.array_equal(a.phase, b.phase)):
            ctx["viol"].append(("repeat", "compile", "two-deterministic-compiles-differ"))
        return circ
    if name == "compile_init":
        # compile from a caller-owned initial state, with both back ends, twice: the caller's object must keep denoting its state
        from ..ref import spaces
        grp = spaces.stabilizer_states(2)[INIT_INDEX]
        v0 = grp.vector()
        vref = ref_forced_from(layout, gq.circuit_letters(circ), 1, v0)
        for backend in ("stab", "dm"):
            init = ctx["init"][backend]
            for rep in range(2):
                st = su.compiler(backend, 1).compile(circ, initial_state=init)
                bad = c01.state_matches(backend, st.rep_data.data, vref, 2)
                if bad is not None:
                    ctx["viol"].append(("initial-state", "compile:" + backend, "compile-from-initial-state-wrong-on-run-%d (%s)" % (rep + 1, bad)))
                    break
                bad0 = c01.state_matches(backend, init.rep_data.data, v0, 2)
                if bad0 is not None:
                    ctx["viol"].append(("initial-state", "compile:" + backend, "callers-initial-state-changed-by-compile (%s)" % bad0))
                    break
        return circ
    if name == "mc_noise":
        # Monte-Carlo noisy copies derived from the circuit (real generator, seeded); the circuit itself must stay noise free
        import graphiq.noise.noise_models as nm
        from graphiq.noise.monte_carlo_noise import MonteCarloNoise, McNoiseMap
        letters = gq.circuit_letters(circ)
        if any(l[0] in ("CNOT", "CZ", "CCNOT", "CCZ", "MCR") and l[1] == "p" for l in letters):
            return circ  # the Monte-Carlo map has no photon-controlled entries
        mp = McNoiseMap()
        mp.add_gate_noise("e", "Hadamard", [(nm.PauliError("X"), 0.5), (nm.PauliError("Z"), 0.25)])
        mp.add_gate_noise("p", "Hadamard", [(nm.PauliError("Y"), 0.5)])
        mp.add_gate_noise("ep", "CNOT", [(nm.PauliError("X"), 0.5)])
        mc = MonteCarloNoise(circ, 3, mp, su.compiler("stab", 1), seed=1)
        mc.run()
        return circ
    if name == "infidelity":
        n = layout[0] + layout[1]
        tgt = QuantumState(sv.dm(sv.zero(n)), rep_type="dm")
        st = su.compiler("dm", 1).compile(circ)
        gm.Infidelity(tgt).evaluate(st, circ)
        gm.TraceDistance(tgt).evaluate(st, circ)
        return circ
    if name == "metrics":
        for m in ("CircuitDepth", "CircuitEmitterCount", "CircuitCnotCount", "CircuitUnitaryCount", "CircuitMeasureCount",
                  "CircuitMaxEmitDepth", "CircuitMaxEmitResetDepth", "CircuitMaxEmitEffDepth"):
            getattr(gm, m)().evaluate(None, circ)
        circ.register_depth
        return circ
    if name in ("compare_direct", "compare_iso"):
        other = gq.build_circuit(layout, [["1", "H", "e", 0], ["CNOT", "e", 0, "p", 0]])
        circ.compare(other, method="direct" if name == "compare_direct" else "is_isomorphic")
        other.compare(circ, method="direct" if name == "compare_direct" else "is_isomorphic")
        return circ
    if name == "export":
        circ.to_openqasm()
        circ.to_json()
        return circ
    raise ValueError(name)


def run_history(acc, pi, hist):
    prog = PROGRAMS[pi]
    layout = LAYOUT
    case = {"layout": list(layout), "program": prog, "history": list(hist)}
    acc.evaluations += 1
    circ = gq.build_circuit(layout, prog)
    ref_sig = mix_sig(layout, prog)
    vref = ref_forced(layout, prog, 1)
    inits = make_inits()
    for k, name in enumerate(hist):
        acc.transitions += 1
        site = name
        fp_before = fingerprint(circ)
        ctx = {"viol": [], "init": inits}
        try:
            nxt = do_call(name, circ, layout, ctx)
        except Exception as e:
            if name == "group" and fingerprint(circ) == fp_before:
                acc.refusal("group raised %s without changing the circuit" % type(e).__name__)
                continue
            acc.violation("raises", site, "raises-" + type(e).__name__, dict(case, step=k), "call returns", repr(e)[:200])
            return
        mut = gq.check_shared_lists()
        if mut is not None:
            acc.violation("mutation", site, "shared-wrapper-operations-list-mutated", dict(case, step=k), "unchanged", mut)
            return
        for sub, st, sym in ctx["viol"]:
            acc.violation(sub, st, sym, dict(case, step=k), "unchanged / identical", "differs")
        # the object passed in
        if name not in REWRITES:
            if fingerprint(circ) != fp_before:
                acc.violation("mutation", site, "input-circuit-changed", dict(case, step=k), "unchanged operations / noise", _diff(fp_before, fingerprint(circ)))
                return
        bad = behaviour_ok(circ, layout, vref)
        if bad is not None:
            acc.violation("mutation" if name not in REWRITES else "rewrite", site, "input-circuit-" + bad, dict(case, step=k), "state of the original program", bad)
            return
        if nxt is not circ:
            # returned object must denote the same circuit
            if mix_sig(layout, gq.circuit_letters(nxt)) != ref_sig:
                acc.violation("rewrite", site, "returned-circuit-denotes-another-state", dict(case, step=k), "same state", gq.circuit_letters(nxt))
                return
            bad = behaviour_ok(nxt, layout, vref)
            if bad is not None:
                acc.violation("rewrite", site, "returned-circuit-" + bad, dict(case, step=k), "state of the original program", bad)
                return
            circ = nxt
        else:
            if mix_sig(layout, gq.circuit_letters(circ)) != ref_sig:
                acc.violation("rewrite", site, "rewritten-circuit-denotes-another-state", dict(case, step=k), "same state", gq.circuit_letters(circ))
                return
    acc.validated += 1
    acc.state((pi, fingerprint(circ)[3]))
    if len(hist) >= 2 and (set(hist[:-1]) & (REWRITES | {"noise_real", "noise_empty", "copy"})):
        acc.nontriv((pi, tuple(hist)))


def _diff(a, b):
    return {"before": [x for x in a[3] if x not in b[3]][:3], "after": [x for x in b[3] if x not in a[3]][:3]}


# ---- targets ------------------------------------------------------------------------------

def target_vector_of(t):
    """state denoted by a QuantumState, read by the harness without graphiq's converters."""
    rd = t.rep_data
    name = type(rd).__name__
    if name == "DensityMatrix":
        w, v = np.linalg.eigh(np.asarray(rd.data))
        return v[:, -1].reshape((2,) * int(np.log2(len(w)))), float(w[-1])
    if name == "Stabilizer":
        return gq.tableau_group(rd.data).vector(), 1.0
    if name == "Graph":
        g = rd.data
        nodes = list(g.nodes())
        idx = {x: i for i, x in enumerate(nodes)}
        return sv.graph_state(len(nodes), [(idx[a], idx[b]) for a, b in g.edges()]), 1.0
    raise core.HarnessError("unknown representation " + name)


TCALLS = ["trs_stab", "trs_dm", "infidelity", "copy"]


def run_target_history(acc, n, edges, form, hist):
    import graphiq.metrics as gm
    from graphiq.solvers.time_reversed_solver import TimeReversedSolver
    case = {"n": n, "edges": [list(e) for e in edges], "form": form, "history": list(hist)}
    acc.evaluations += 1
    t = su.make_target(n, edges, form)
    want = sv.graph_state(n, edges)
    for k, name in enumerate(hist):
        acc.transitions += 1
        try:
            if name in ("trs_stab", "trs_dm"):
                s = TimeReversedSolver(target=t, metric=gm.Infidelity(t), compiler=su.compiler("stab" if name == "trs_stab" else "dm", 1))
                s.solve()
                if abs(s.result[0]) > 1e-9:
                    acc.violation("target", name, "score-not-zero-on-shared-target", dict(case, step=k), 0.0, float(s.result[0]))
            elif name == "infidelity":
                from graphiq.state import QuantumState
                st = QuantumState(sv.dm(want), rep_type="dm")
                v = gm.Infidelity(t).evaluate(st, None) if t.rep_type in ("s", "dm") else 0.0
                if abs(v) > 1e-9:
                    acc.violation("target", name, "infidelity-with-itself-not-zero", dict(case, step=k), 0.0, float(v))
            elif name == "copy":
                t2 = t.copy()
        except Exception as e:
            acc.violation("raises", "target:" + name, "raises-" + type(e).__name__, dict(case, step=k), "call returns", repr(e)[:200])
            return
        try:
            v, w = target_vector_of(t)
        except Exception as e:
            acc.violation("target", name, "target-unreadable-after-call", dict(case, step=k), "a state", repr(e)[:200])
            return
        if abs(w - 1) > 1e-9 or not sv.same_ray(v, want):
            acc.violation("target", name, "target-state-changed", dict(case, step=k), "|G>", "other state")
            return
    acc.validated += 1
    acc.nontriv(("target", n, tuple(map(tuple, edges)), form, tuple(hist)))


def run_stabilizer_target(acc, n, idx, hist):
    """a (generally non-graph) stabilizer state used as target / state by metrics and the solver: it must keep denoting itself."""
    import graphiq.metrics as gm
    from graphiq.state import QuantumState
    from graphiq.solvers.time_reversed_solver import TimeReversedSolver
    grp = spaces.stabilizer_states(n)[idx]
    case = {"n": n, "target": grp.strings(), "history": list(hist)}
    acc.evaluations += 1
    t = QuantumState(gq.group_to_clifford_tableau(grp), rep_type="s")
    v = grp.vector()
    for k, name in enumerate(hist):
        acc.transitions += 1
        try:
            if name == "infidelity_dm_state":
                val = gm.Infidelity(t).evaluate(QuantumState(sv.dm(v), rep_type="dm"), None)
                if not any(g.startswith("-") for g in grp.strings()) and abs(val) > 1e-9:
                    acc.violation("target", name, "infidelity-with-itself-not-zero", dict(case, step=k), 0.0, float(val))
            elif name == "infidelity_s_state":
                val = gm.Infidelity(t).evaluate(QuantumState(gq.group_to_clifford_tableau(grp), rep_type="s"), None)
                if abs(val) > 1e-9:
                    acc.violation("target", name, "infidelity-with-itself-not-zero", dict(case, step=k), 0.0, float(val))
            elif name == "trs":
                try:
                    TimeReversedSolver(target=t, metric=gm.Infidelity(t), compiler=su.compiler("stab", 1)).solve()
                except (IndexError, AssertionError):
                    pass  # product / non-graph-form targets: the solver's own limits (C02); only the target object matters here
            elif name == "copy":
                t.copy()
        except Exception as e:
            acc.violation("raises", "target:" + name, "raises-" + type(e).__name__, dict(case, step=k), "call returns", repr(e)[:200])
            return
        try:
            ok = type(t.rep_data).__name__ == "Stabilizer" and gq.tableau_invariant(t.rep_data.data) is None and gq.tableau_group(t.rep_data.data).same_state(grp)
        except Exception:
            ok = False
        if not ok:
            acc.violation("target", name, "target-state-changed", dict(case, step=k), grp.strings(), "other state / representation")
            return
    acc.validated += 1
    acc.nontriv(("sttarget", n, idx, tuple(hist)))


def isolated(case):
    return "edges" in case and spaces.has_isolated(case["n"], [tuple(e) for e in case["edges"]])


PREDICATES = {"target_has_isolated_vertex": isolated}


NOISY = [
    ([["1", "H", "e", 0], ["CNOT", "e", 0, "p", 0]], [None, [["dep", 0.25, False], ["dep", 0.5, True]]]),
    ([["1", "H", "e", 0], ["CZ", "e", 0, "p", 0]], [["pauli", "X", True], [["loss", 0.25, True], ["pauli", "Z", False]]]),
    ([["CNOT", "e", 0, "p", 0], ["1", "H", "p", 0]], [[["dep", 0.25, True], ["dep", 0.5, False]], ["dep", 0.25, False]]),
    ([["W", ["H", "P"], "e", 0], ["CNOT", "e", 0, "p", 0]], [("list", [["pauli", "Z", False], ["dep", 0.5, True]]), [None, ["loss", 0.25, False]]]),
    ([["1", "H", "e", 0], ["CNOT", "e", 0, "p", 0], ["CNOT", "e", 0, "p", 0]], [["dep", 0.25, True], [["dep", 0.25, False], None], [["pauli", "Y", True], ["dep", 0.5, False]]]),
]
NCALLS = ["compile_dm_noise", "compile_mix_noise", "compile_dm", "copy", "metrics", "export", "compare_direct"]


def run_noisy_history(acc, idx, hist):
    """a circuit that carries noise objects: calls must leave operations/noise untouched and every noisy compile must give the same channel."""
    from . import c06
    prog, noises = NOISY[idx]
    layout = (1, 1, 0)
    case = {"layout": list(layout), "program": prog, "noise": c06._jn(noises), "history": list(hist)}
    acc.evaluations += 1
    circ = c06.build_real(layout, [c06.make_noisy_op(l, nd) for l, nd in zip(prog, noises)])
    want = c06.ref_run(layout, prog, noises, True)
    want_off = c06.ref_run(layout, prog, noises, False)
    surv = c06.survival(noises, prog, True)
    for k, name in enumerate(hist):
        acc.transitions += 1
        fp = fingerprint(circ)
        try:
            if name in ("compile_dm_noise", "compile_mix_noise", "compile_dm"):
                backend = "mix" if name == "compile_mix_noise" else "dm"
                on = name != "compile_dm"
                st = c06.compile_real(circ, backend, on, True)
                sub = core.Acc(ID, findings=[], predicates={})
                c06.check_state(sub, st, backend, 2, want if on else want_off, surv if on else 1.0, case, name)
                if sub.viol:
                    ex = list(sub.viol.values())[0]["examples"][0]
                    acc.violation("repeat", name, "noisy-compile-differs-after-earlier-calls: " + ex["symptom"], dict(case, step=k), "reference channel", ex["observed"])
                    return
            elif name == "copy":
                c2 = circ.copy()
                if fingerprint(c2) != fp:
                    acc.violation("rewrite", "copy", "copy-differs-from-original", dict(case, step=k), "same operations and noise", "differs")
                    return
                circ = c2
            else:
                do_call(name, circ, (1, 1, 0), {"viol": [], "init": None})
        except Exception as e:
            acc.violation("raises", name, "raises-" + type(e).__name__, dict(case, step=k), "call returns", repr(e)[:200])
            return
        if name != "copy" and fingerprint(circ) != fp:
            acc.violation("mutation", name, "input-circuit-changed", dict(case, step=k), "unchanged operations / noise", _diff(fp, fingerprint(circ)))
            return
    acc.validated += 1
    acc.nontriv(("noisy", idx, tuple(hist)))


def shards(tier):
    out0 = [{"kind": "noisy", "idx": i} for i in range(len(NOISY))]
    out = out0
    deep = range(len(PROGRAMS)) if tier == "thorough" else [4, 6, 7, 8, 11, 12, 15, 16, 22, 24, 28, 29]
    for pi in range(len(PROGRAMS)):
        out.append({"kind": "hist", "prog": pi, "depth": 2, "first": None})
    for pi in deep:
        for c in CALLS:
            out.append({"kind": "hist", "prog": pi, "depth": 3, "first": c})
    for a in range(0, 60, 10):
        out.append({"kind": "sttarget", "n": 2, "lo": a, "hi": a + 10})
    for a in range(0, 1080, 90):
        out.append({"kind": "sttarget", "n": 3, "lo": a, "hi": a + 90, "stride": 9})
    nmax = 3 if tier == "quick" else 4
    for n in range(2, nmax + 1):
        for g in spaces.all_graphs(n):
            if not spaces.has_isolated(n, g):
                out.append({"kind": "target", "n": n, "edges": [list(e) for e in g]})
    return out


def run_shard(shard, tier, acc):
    if shard["kind"] == "sttarget":
        calls = ["infidelity_dm_state", "infidelity_s_state", "trs", "copy"]
        for idx in range(shard["lo"], shard["hi"], shard.get("stride", 1)):
            for L in (1, 2):
                for h in itertools.product(calls, repeat=L):
                    run_stabilizer_target(acc, shard["n"], idx, h)
        return
    if shard["kind"] == "noisy":
        for L in (1, 2, 3):
            for h in itertools.product(NCALLS, repeat=L):
                run_noisy_history(acc, shard["idx"], h)
        return
    if shard["kind"] == "hist":
        pi = shard["prog"]
        if shard["first"] is None:
            hists = [()] + [(a,) for a in CALLS] + [(a, b) for a in CALLS for b in CALLS]
        else:
            hists = [(shard["first"], b, c) for b in CALLS for c in CALLS]
        for h in hists:
            run_history(acc, pi, h)
        acc.sample({"program": PROGRAMS[pi], "history": list(hists[-1])})
    else:
        n, edges = shard["n"], [tuple(e) for e in shard["edges"]]
        for form in ("g", "s", "dm"):
            for L in (1, 2, 3):
                for h in itertools.product(TCALLS, repeat=L):
                    run_target_history(acc, n, edges, form, h)


def replay_case(case, acc):
    if "noise" in case:
        idx = [i for i, (prog, _) in enumerate(NOISY) if prog == case["program"]][0]
        run_noisy_history(acc, idx, tuple(case["history"]))
    elif "target" in case:
        st = spaces.stabilizer_states(case["n"])
        idx = [i for i, g in enumerate(st) if g.strings() == case["target"]][0]
        run_stabilizer_target(acc, case["n"], idx, tuple(case["history"]))
    elif "program" in case:
        pi = PROGRAMS.index(case["program"])
        run_history(acc, pi, tuple(case["history"]))
    else:
        run_target_history(acc, case["n"], [tuple(e) for e in case["edges"]], case["form"], tuple(case["history"]))
