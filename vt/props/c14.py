"""C14 - export / import round trip, and what the openQASM text means.

Engine A: every program of <= L operations over the exporter alphabet on three layouts (+ solver circuits, built with
insert_at).  Oracles: per-register operation sequences of the re-imported circuit (R6 style), and R7: the exported text
executed under standard OpenQASM 2.0 semantics over all outcome branches against R1's execution of the circuit.
"""
import itertools
import json
import numpy as np

from .. import core, gq, solverutil as su
from ..ref import statevec as sv, qasm2, spaces

ID = "C14"
META = {
    "engine": "A (exhaustive program enumeration) with an independent OpenQASM 2.0 interpreter as semantic oracle",
    "rule": "a case = (layout, program); sub-checks: qasm round trip, json round trip, text semantics, determinism; non-trivial = program has a "
            "two-register or measuring operation or a non-commuting wrapper; distinct = distinct programs",
    "bounds": {"quick": "layout (1,1,1): all programs <= 2 letters over the full alphabet (all 30 wrappers), <= 3 over the 24-letter core; (2,1,1),(1,2,2): <= 2 core; "
                        "solver circuits of all graphs n<=4",
               "thorough": "(1,1,1) <= 3 full... core <= 4; 3-register layouts <= 3 core"},
    "assumptions": ["round trip compares per-register sequences after unwrapping and dropping identity gates (the exporter emits nothing for Identity)",
                    "standard semantics: gate bodies execute in listed order; U(theta,phi,lambda)=Rz(phi)Ry(theta)Rz(lambda)"],
}
LIB = None


def wrappers(full):
    global LIB
    if LIB is None:
        import graphiq.circuit.ops as ops
        LIB = [[gq.ONE_INV[c] for c in lst] for lst in ops.one_qubit_cliffords()]
    extra = [["H", "P"], ["P", "H"], ["X", "I"], ["Pdag", "H"], ["I", "I"], ["H", "I", "P"]]
    if full:
        return [w for w in LIB] + extra
    return [["H", "P"], ["P", "H"], ["X", "I"]]


def alphabet(layout, full):
    ne, npn, nc = layout
    qs = [("e", i) for i in range(ne)] + [("p", i) for i in range(npn)]
    al = []
    for t, r in qs:
        for nm in (["I", "H", "P", "Pdag", "X", "Y", "Z"] if full else ["H", "P", "Pdag", "X"]):
            al.append(["1", nm, t, r])
    for a, b in itertools.permutations(qs, 2):
        al.append(["CNOT", a[0], a[1], b[0], b[1]])
        if full or a < b:
            al.append(["CZ", a[0], a[1], b[0], b[1]])
    for a, b in itertools.permutations(qs, 2):
        for c in range(nc):
            if not full and (c > 0 or a[0] != "e"):
                continue
            for k in ("CCNOT", "CCZ", "MCR"):
                al.append([k, a[0], a[1], b[0], b[1], c])
    for t, r in qs:
        for c in range(nc):
            if full or c == nc - 1:
                al.append(["MZ", t, r, c])
    for t, r in qs:
        for w in wrappers(full):
            al.append(["W", w, t, r])
    return al


def per_wire(layout, letters):
    """per quantum register: elementary letters (wrappers unwrapped, identities dropped)."""
    out = {}
    for l in gq.unwrap_letters(letters):
        if l[0] == "1" and l[1] == "I":
            continue
        for r in gq.letter_qregs(l):
            out.setdefault(tuple(r), []).append(l)
    return out


def circuit_sig(layout, letters):
    sig = {}
    for outs, p, v, creg in gq.ref_branches(layout, letters):
        k = (tuple(creg), sv.canon_ray(v, 6))
        sig[k] = sig.get(k, 0.0) + p
    return {k: round(p, 9) for k, p in sig.items()}


def check_circuit(acc, circ, layout, case, semantics=True):
    from graphiq.circuit.circuit_dag import CircuitDAG
    acc.evaluations += 1
    letters = gq.circuit_letters(circ)  # in the circuit's own sequence order
    want_wires = per_wire(layout, letters)
    # ---- openQASM
    try:
        text = circ.to_openqasm()
    except Exception as e:
        acc.violation("qasm-export", "to_openqasm", "raises-" + type(e).__name__, case, "text", repr(e)[:200])
        text = None
    if text is not None:
        acc.transitions += 1
        try:
            t2 = circ.to_openqasm()
            t3 = circ.copy().to_openqasm()
            if t2 != text or t3 != text:
                acc.violation("determinism", "to_openqasm", "two-exports-differ", case, text, t2 if t2 != text else t3)
        except Exception as e:
            acc.violation("determinism", "to_openqasm", "raises-" + type(e).__name__, case, "text", repr(e)[:200])
        try:
            c2 = CircuitDAG.from_openqasm(text)
            got = (c2.n_emitters, c2.n_photons, c2.n_classical)
            if got != tuple(layout):
                acc.violation("qasm-roundtrip", "from_openqasm", "register-counts-differ", case, list(layout), list(got))
            else:
                gw = per_wire(layout, gq.circuit_letters(c2))
                if gw != want_wires:
                    acc.violation("qasm-roundtrip", "from_openqasm", "operations-differ", case, _fmt(want_wires), _fmt(gw))
        except Exception as e:
            acc.violation("qasm-roundtrip", "from_openqasm", "raises-%s" % type(e).__name__, case, "a circuit", repr(e)[:200])
        # semantics of the text
        try:
            if not semantics:
                raise StopIteration
            sig_text = qasm2.signature(text)
            sig_circ = circuit_sig(layout, letters)
            if sig_text != sig_circ:
                acc.violation("qasm-semantics", "to_openqasm", "text-denotes-other-operations", case,
                              "same branches as the circuit", {"text": text[-400:]})
            acc.state(core.h64(repr(sorted(sig_circ.items()))))
        except StopIteration:
            pass
        except qasm2.QasmError as e:
            acc.violation("qasm-semantics", "to_openqasm", "text-not-valid-openqasm2", case, "valid OpenQASM 2.0", str(e)[:200])
    # ---- JSON
    try:
        data = circ.to_json()
        blob = json.dumps(data)
        blob2 = json.dumps(circ.to_json())
        if blob != blob2:
            acc.violation("determinism", "to_json", "two-exports-differ", case, blob[:200], blob2[:200])
        try:
            c3 = CircuitDAG.from_json(json.loads(blob))
            got = (c3.n_emitters, c3.n_photons, c3.n_classical)
            if got != tuple(layout):
                acc.violation("json-roundtrip", "from_json", "register-counts-differ", case, list(layout), list(got))
            else:
                gw = per_wire(layout, gq.circuit_letters(c3))
                if gw != want_wires:
                    acc.violation("json-roundtrip", "from_json", "operations-differ", case, _fmt(want_wires), _fmt(gw))
        except Exception as e:
            acc.violation("json-roundtrip", "from_json", "raises-%s" % type(e).__name__, case, "a circuit", repr(e)[:200])
    except Exception as e:
        acc.violation("json-export", "to_json", "raises-" + type(e).__name__, case, "a dict", repr(e)[:200])
    acc.validated += 1


def _fmt(w):
    return {"%s%d" % k: v for k, v in sorted(w.items())}


def nontrivial(prog):
    return any(l[0] not in ("1",) for l in prog)


def kinds(case):
    """set of letter kinds / gate names in the program (used by known-finding predicates)."""
    s = set()
    for l in case.get("program", []):
        s.add(l[0])
        if l[0] == "1":
            s.add("1:" + l[1])
        if l[0] == "W":
            for nm in l[1]:
                s.add("W:" + nm)
    return s


def shards(tier):
    out = []
    if tier == "quick":
        plan = [((1, 1, 1), 2, True), ((1, 1, 1), 3, False), ((2, 1, 1), 2, False), ((1, 2, 2), 2, False)]
        ns = 4
    else:
        plan = [((1, 1, 1), 3, True), ((1, 1, 1), 4, False), ((2, 1, 1), 3, False), ((1, 2, 2), 3, False)]
        ns = 5
    for layout, L, full in plan:
        al = alphabet(layout, full)
        out.append({"kind": "prog", "layout": layout, "L": min(L, 1), "full": full, "first": None})
        if L >= 2:
            for i in range(len(al)):
                out.append({"kind": "prog", "layout": layout, "L": L, "full": full, "first": i})
    out.append({"kind": "wide"})
    for n in range(2, ns + 1):
        graphs = [g for g in spaces.all_graphs(n) if not spaces.has_isolated(n, g)]
        for a in range(0, len(graphs), 8):
            out.append({"kind": "solver", "n": n, "graphs": [[list(e) for e in g] for g in graphs[a:a + 8]]})
    return out


def run_shard(shard, tier, acc):
    if shard["kind"] == "prog":
        layout = tuple(shard["layout"])
        al = alphabet(layout, shard["full"])
        if shard["first"] is None:
            progs = [list(t) for n in range(0, shard["L"] + 1) for t in itertools.product(al, repeat=n)]
        else:
            f = al[shard["first"]]
            progs = [[f] + list(t) for n in range(1, shard["L"]) for t in itertools.product(al, repeat=n)]
        for prog in progs:
            case = {"layout": list(layout), "program": prog}
            try:
                circ = gq.build_circuit(layout, prog)
            except Exception as e:
                acc.violation("build", "CircuitDAG.add", "raises-" + type(e).__name__, case, "a circuit", repr(e)[:200])
                continue
            check_circuit(acc, circ, layout, case)
            if nontrivial(prog):
                acc.nontriv(prog)
        if progs:
            acc.sample({"layout": list(layout), "program": progs[-1]})
    elif shard["kind"] == "wide":
        # two-digit register indices (string slicing / regexes in the importer)
        layout = (11, 11, 11)
        al = [["1", "H", "e", 10], ["1", "Pdag", "p", 10], ["W", ["H", "P"], "p", 10], ["CNOT", "e", 10, "p", 10], ["CZ", "e", 9, "e", 10],
              ["MZ", "p", 10, 10], ["MCR", "e", 10, "p", 10, 10], ["CCZ", "e", 10, "p", 9, 10], ["CCNOT", "p", 10, "e", 10, 9]]
        for n in (1, 2):
            for t in itertools.product(al, repeat=n):
                prog = list(t)
                circ = gq.build_circuit(layout, prog)
                check_circuit(acc, circ, layout, {"layout": list(layout), "program": prog}, semantics=False)
                acc.nontriv(prog)
    else:
        for edges in shard["graphs"]:
            try:
                score, circ, solver = su.run_trs(shard["n"], [tuple(e) for e in edges])
            except Exception:
                acc.refusal("solver raised")
                continue
            layout = (circ.n_emitters, circ.n_photons, circ.n_classical)
            check_circuit(acc, circ, layout, {"layout": list(layout), "program": gq.circuit_letters(circ), "solver_graph": edges})
            acc.nontriv(("solver", repr(edges)))


def replay_case(case, acc):
    layout = tuple(case["layout"])
    circ = gq.build_circuit(layout, case["program"])
    check_circuit(acc, circ, layout, case)


def has_kind(*names):
    return lambda case: bool(kinds(case) & set(names))


PREDICATES = {}
