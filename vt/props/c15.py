"""C15 - circuits reported equal are equivalent; de-duplication keeps every distinct one.

Engine A: all ordered pairs of a family of small circuits (all programs of <= 2 letters over alphabets in which control/target,
register identity and register type matter, plus wrapped / unwrapped / identity-padded variants), all short lists through the
redundancy filters.  Oracle: R1 all-branch signature (mixture of final states), up to same-type register renaming for the
isomorphism method.
"""
import itertools
import numpy as np

from .. import core, gq
from ..ref import statevec as sv
from .c12 import fingerprint

ID = "C15"
META = {
    "engine": "A (all ordered pairs / all short lists of a finite circuit family)",
    "rule": "a case = ordered pair (a,b) of circuits with a comparison method, or a list of <= 3 circuits; non-trivial = the two programs differ "
            "and both contain a two-register operation or a wrapper; distinct = distinct (method, a, b)",
    "bounds": {"quick": "family = all programs of <= 2 letters on (2,1,1) [16 letters], (1,2,1) [11], plus variants; all ordered pairs per layout x {direct, is_isomorphic}; "
                        "all lists of <= 3 from a 14-circuit sub-family through remove_redundant_circuits and CircuitStorage",
               "thorough": "+ (2,2,1) family, GED_full on the <=1-letter sub-family (wall-clock timeout 10 s inside graphiq assumed not reached)"},
    "assumptions": ["'same state' = same mixture of final quantum states over all measurement-outcome branches from |0..0>; classical records are not compared"],
}
ALPH = {
    (2, 1, 1): [["1", "H", "e", 0], ["1", "H", "e", 1], ["1", "X", "e", 0], ["1", "P", "p", 0], ["1", "I", "e", 0],
                ["CNOT", "e", 0, "e", 1], ["CNOT", "e", 1, "e", 0], ["CNOT", "e", 0, "p", 0], ["CNOT", "e", 1, "p", 0], ["CZ", "e", 0, "e", 1],
                ["MCR", "e", 0, "p", 0, 0], ["MCR", "e", 1, "p", 0, 0], ["MZ", "p", 0, 0],
                ["W", ["H", "P"], "e", 0], ["W", ["P", "H"], "e", 0], ["W", ["H", "P"], "e", 1]],
    (1, 2, 1): [["1", "H", "p", 0], ["1", "H", "p", 1], ["1", "X", "p", 0], ["1", "H", "e", 0], ["1", "I", "p", 1],
                ["CNOT", "e", 0, "p", 0], ["CNOT", "e", 0, "p", 1], ["CNOT", "p", 0, "e", 0], ["MCR", "e", 0, "p", 1, 0], ["CCZ", "p", 0, "p", 1, 0],
                ["W", ["H", "P"], "p", 1]],
    (2, 2, 1): [["1", "H", "e", 0], ["1", "H", "e", 1], ["CNOT", "e", 0, "e", 1], ["CNOT", "e", 1, "e", 0], ["CNOT", "e", 0, "p", 0],
                ["CNOT", "e", 1, "p", 1], ["CNOT", "e", 0, "p", 1], ["MCR", "e", 1, "p", 0, 0], ["W", ["H", "P"], "p", 0]],
}


def family(layout, L=2):
    al = ALPH[layout]
    progs = [list(t) for n in range(0, L + 1) for t in itertools.product(al, repeat=n)]
    return progs


def variants(prog):
    """programs that denote the same circuit up to wrapping and identity gates."""
    out = []
    un = gq.unwrap_letters(prog)
    if un != prog:
        out.append(un)
    padded = []
    for l in prog:
        padded.append(l)
        t, r = gq.letter_qregs(l)[0]
        padded.append(["1", "I", t, r])
    if prog:
        out.append(padded)
    wrapped = [["W", [l[1]], l[2], l[3]] if l[0] == "1" else l for l in prog]
    if wrapped != prog:
        out.append(wrapped)
    return out


_SIG = {}


def state_sig(layout, prog, perm=None):
    """{canonical final ray: probability}; perm = (perm_e, perm_p) renames registers of the program first."""
    key = (layout, repr(prog), perm)
    if key in _SIG:
        return _SIG[key]
    if perm is not None:
        pe, pp = perm

        def rn(t, r):
            return pe[r] if t == "e" else pp[r]
        p2 = []
        for l in prog:
            l = list(l)
            if l[0] in ("1", "W"):
                l[3] = rn(l[2], l[3])
            elif l[0] == "MZ":
                l[2] = rn(l[1], l[2])
            else:
                l[2] = rn(l[1], l[2])
                l[4] = rn(l[3], l[4])
            p2.append(l)
        prog = p2
    sig = {}
    for outs, p, v, creg in gq.ref_branches(layout, prog):
        k = sv.canon_ray(v, 6)
        sig[k] = sig.get(k, 0.0) + p
    sig = tuple(sorted((k, round(p, 9)) for k, p in sig.items()))
    _SIG[key] = sig
    return sig


def equivalent(layout, pa, pb, up_to_renaming):
    if state_sig(layout, pa) == state_sig(layout, pb):
        return True
    if up_to_renaming:
        for pe in itertools.permutations(range(layout[0])):
            for pp in itertools.permutations(range(layout[1])):
                if state_sig(layout, pa) == state_sig(layout, pb, (pe, pp)):
                    return True
    return False


def shards(tier):
    out = []
    layouts = [(2, 1, 1), (1, 2, 1)] + ([(2, 2, 1)] if tier == "thorough" else [])
    for lay in layouts:
        fam = family(lay)
        step = 12
        for a in range(0, len(fam), step):
            out.append({"kind": "pairs", "layout": lay, "lo": a, "hi": min(len(fam), a + step)})
        for a in range(0, len(fam), 40):
            out.append({"kind": "variants", "layout": lay, "lo": a, "hi": min(len(fam), a + 40)})
    for i in range(14):
        out.append({"kind": "lists", "first": i})
    out.append({"kind": "cross"})
    out.append({"kind": "far"})
    for a in range(0, 60, 6):
        out.append({"kind": "three", "lo": a, "hi": a + 6})
    out.append({"kind": "replaced"})
    if tier == "thorough":
        out.append({"kind": "ged"})
    return out


def compare(acc, ca, cb, method, case):
    fa, fb = fingerprint(ca), fingerprint(cb)
    try:
        r = bool(ca.compare(cb, method=method))
    except Exception as e:
        acc.violation("compare", method, "raises-" + type(e).__name__, case, "a bool", repr(e)[:200])
        return None
    if fingerprint(ca) != fa or fingerprint(cb) != fb:
        acc.violation("purity", method, "compared-circuit-modified", case, "unchanged", "changed")
    return r


def run_shard(shard, tier, acc):
    kind = shard["kind"]
    if kind == "pairs":
        lay = tuple(shard["layout"])
        fam = family(lay)
        circs = [gq.build_circuit(lay, p) for p in fam]
        for i in range(shard["lo"], shard["hi"]):
            for j in range(len(fam)):
                for method in ("direct", "is_isomorphic"):
                    case = {"layout": list(lay), "a": fam[i], "b": fam[j], "method": method}
                    acc.evaluations += 1
                    acc.transitions += 1
                    r = compare(acc, circs[i], circs[j], method, case)
                    if r is None:
                        continue
                    if r and not equivalent(lay, fam[i], fam[j], method == "is_isomorphic"):
                        acc.violation("soundness", method, "inequivalent-circuits-reported-equal", case, False, True)
                    if i == j and not r:
                        acc.violation("reflexive", method, "circuit-not-equal-to-itself", case, True, False)
                    if j < i or not (shard["lo"] <= j < shard["hi"]):
                        r2 = compare(acc, circs[j], circs[i], method, dict(case, swapped=True))
                        if r2 is not None and r2 != r:
                            acc.violation("symmetric", method, "answer-depends-on-argument-order", case, r, r2)
                    acc.validated += 1
                    acc.state((method, r, core.h64(repr(state_sig(lay, fam[i]))), state_sig(lay, fam[i]) == state_sig(lay, fam[j])))
                    if fam[i] != fam[j] and any(l[0] not in ("1", "MZ") for l in fam[i]) and any(l[0] not in ("1", "MZ") for l in fam[j]):
                        acc.nontriv((method, repr(fam[i]), repr(fam[j])))
        acc.sample(case)
    elif kind == "variants":
        lay = tuple(shard["layout"])
        fam = family(lay)
        for i in range(shard["lo"], shard["hi"]):
            a = fam[i]
            ca = gq.build_circuit(lay, a)
            for method in ("direct", "is_isomorphic"):
                acc.evaluations += 1
                case = {"layout": list(lay), "a": a, "b": "copy", "method": method}
                r = compare(acc, ca, ca.copy(), method, case)
                if r is False:
                    acc.violation("reflexive", method, "copy-not-equal", case, True, False)
                for v in variants(a):
                    cv = gq.build_circuit(lay, v)
                    case = {"layout": list(lay), "a": a, "b": v, "method": method}
                    acc.evaluations += 1
                    acc.transitions += 1
                    r = compare(acc, ca, cv, method, case)
                    r2 = compare(acc, cv, ca, method, dict(case, swapped=True))
                    if r is False or r2 is False:
                        acc.violation("insensitive", method, "wrapping-or-identity-changes-the-answer", case, True, [r, r2])
                    acc.nontriv((method, "variant", repr(a), repr(v)))
    elif kind == "lists":
        lay = (2, 1, 1)
        sub = [[], [["1", "H", "e", 0]], [["1", "H", "e", 1]], [["W", ["H"], "e", 0]], [["1", "H", "e", 0], ["1", "I", "e", 0]],
               [["CNOT", "e", 0, "e", 1]], [["CNOT", "e", 1, "e", 0]], [["CNOT", "e", 0, "p", 0]], [["CNOT", "e", 1, "p", 0]],
               [["CNOT", "e", 0, "e", 1], ["CNOT", "e", 0, "e", 1]], [["CNOT", "e", 0, "e", 1], ["CNOT", "e", 1, "e", 0]],
               [["W", ["H", "P"], "e", 0]], [["1", "P", "e", 0], ["1", "H", "e", 0]], [["MCR", "e", 0, "p", 0, 0]]]
        i = shard["first"]
        for rest in itertools.chain([()], itertools.product(range(len(sub)), repeat=1), itertools.product(range(len(sub)), repeat=2)):
            idx = (i,) + tuple(rest)
            progs = [sub[k] for k in idx]
            case = list_case(acc, lay, progs)
            if len(idx) > 1:
                acc.nontriv(("list", idx))
        acc.sample(case)
    elif kind == "cross":
        # circuits on different registers are never equal
        pa, pb = [["1", "H", "e", 0]], [["1", "H", "e", 0]]
        for la, lb in itertools.permutations([(1, 1, 1), (2, 1, 1), (1, 2, 1), (1, 1, 2)], 2):
            for method in ("direct", "is_isomorphic"):
                acc.evaluations += 1
                case = {"layout_a": list(la), "layout_b": list(lb), "a": pa, "b": pb, "method": method}
                r = compare(acc, gq.build_circuit(la, pa), gq.build_circuit(lb, pb), method, case)
                if r and (la[0], la[1]) != (lb[0], lb[1]):
                    acc.violation("soundness", method, "different-registers-reported-equal", case, False, True)
    elif kind == "three":
        # gate - two-qubit gate - gate on two emitters: where a gate sits relative to control / target of the middle gate matters
        lay = (2, 1, 1)
        g1s = [["1", "H", "e", 0], ["1", "H", "e", 1], ["1", "X", "e", 0]]
        mids = [["CNOT", "e", 0, "e", 1], ["CNOT", "e", 1, "e", 0], ["CZ", "e", 0, "e", 1], ["MCR", "e", 0, "p", 0, 0]]
        g2s = [["1", "H", "e", 0], ["1", "H", "e", 1], ["1", "P", "e", 0], ["1", "P", "e", 1], ["1", "X", "e", 1]]
        fam3 = [[a, b, c] for a in g1s for b in mids for c in g2s]
        circs = [gq.build_circuit(lay, p) for p in fam3]
        for i in range(shard["lo"], min(shard["hi"], len(fam3))):
            for j in range(len(fam3)):
                for method in ("direct", "is_isomorphic"):
                    case = {"layout": list(lay), "a": fam3[i], "b": fam3[j], "method": method}
                    acc.evaluations += 1
                    acc.transitions += 1
                    r = compare(acc, circs[i], circs[j], method, case)
                    if r and not equivalent(lay, fam3[i], fam3[j], method == "is_isomorphic"):
                        acc.violation("soundness", method, "inequivalent-circuits-reported-equal", case, False, True)
                    if i == j and r is False:
                        acc.violation("reflexive", method, "circuit-not-equal-to-itself", case, True, False)
                    if i != j:
                        acc.nontriv((method, "three", i, j))
    elif kind == "far":
        # circuits that are far apart (graph edit distance beyond graphiq's internal upper bound of 30) must not be reported equal
        lay = (2, 1, 1)
        A = [["1", "H", "e", 0], ["CNOT", "e", 0, "p", 0], ["1", "H", "e", 1], ["CNOT", "e", 0, "e", 1], ["1", "P", "e", 0], ["CNOT", "e", 1, "p", 0],
             ["1", "H", "p", 0], ["1", "X", "e", 1], ["CNOT", "e", 1, "e", 0], ["1", "P", "p", 0], ["1", "H", "e", 0], ["CZ", "e", 0, "e", 1],
             ["1", "H", "e", 1], ["1", "P", "e", 1], ["CNOT", "e", 0, "p", 0], ["1", "X", "p", 0], ["1", "H", "e", 0], ["1", "P", "e", 0]]
        fam = [[], [["1", "H", "e", 0]], A]
        for i, j in ((0, 2), (2, 0), (1, 2), (2, 1)):
            for method in ("GED_full", "GED_adaptive", "direct", "is_isomorphic"):
                case = {"layout": list(lay), "a": fam[i], "b": fam[j], "method": method}
                acc.evaluations += 1
                acc.transitions += 1
                r = compare(acc, gq.build_circuit(lay, fam[i]), gq.build_circuit(lay, fam[j]), method, case)
                if r and not equivalent(lay, fam[i], fam[j], method == "is_isomorphic"):
                    acc.violation("soundness", method, "inequivalent-circuits-reported-equal", case, False, True)
                acc.nontriv(("far", i, j, method))
    elif kind == "replaced":
        # circuits edited in place before being compared: an Identity placeholder replaced by a gate is that gate
        import graphiq.circuit.ops as ops
        lay = (2, 1, 1)
        from .c12 import wire_edges
        for base, pos, newl in (([["1", "I", "e", 0], ["CNOT", "e", 0, "e", 1]], ("e", 0, 0), ["1", "H", "e", 0]),
                                ([["CNOT", "e", 0, "p", 0], ["1", "I", "p", 0]], ("p", 0, 1), ["1", "X", "p", 0]),
                                ([["1", "H", "e", 1], ["1", "I", "e", 1], ["CNOT", "e", 1, "e", 0]], ("e", 1, 1), ["1", "P", "e", 1])):
            replaced_case(acc, lay, base, pos, newl)
    elif kind == "ged":
        lay = (2, 1, 1)
        fam = family(lay, 1)
        circs = [gq.build_circuit(lay, p) for p in fam]
        for i in range(len(fam)):
            for j in range(len(fam)):
                case = {"layout": list(lay), "a": fam[i], "b": fam[j], "method": "GED_full"}
                acc.evaluations += 1
                r = compare(acc, circs[i], circs[j], "GED_full", case)
                if r and not equivalent(lay, fam[i], fam[j], False):
                    acc.violation("soundness", "GED_full", "inequivalent-circuits-reported-equal", case, False, True)
                if i == j and r is False:
                    acc.violation("reflexive", "GED_full", "circuit-not-equal-to-itself", case, True, False)


def list_case(acc, lay, progs):
    from graphiq.utils.circuit_comparison import remove_redundant_circuits, CircuitStorage
    circs = [gq.build_circuit(lay, p) for p in progs]
    case = {"layout": list(lay), "list": progs}
    acc.evaluations += 2
    acc.transitions += 2
    try:
        kept = remove_redundant_circuits(circs)
        kept_idx = [k for k, c in enumerate(circs) if any(c is x for x in kept)]
        if len(kept_idx) != len(kept):
            acc.violation("dedup", "remove_redundant_circuits", "returned-objects-not-from-input", case, "subset of input", len(kept))
        for k in range(len(circs)):
            if k not in kept_idx and not any(equivalent(lay, progs[k], progs[m], True) for m in kept_idx):
                acc.violation("dedup", "remove_redundant_circuits", "dropped-a-circuit-inequivalent-to-all-kept", dict(case, dropped=k), "kept", "dropped")
    except Exception as e:
        acc.violation("dedup", "remove_redundant_circuits", "raises-" + type(e).__name__, case, "a list", repr(e)[:200])
    try:
        st = CircuitStorage()
        kept_idx = []
        for k, c in enumerate(circs):
            if st.add_new_circuit(c):
                kept_idx.append(k)
            elif not any(equivalent(lay, progs[k], progs[m], False) for m in kept_idx):
                acc.violation("dedup", "CircuitStorage.add_new_circuit", "refused-a-circuit-inequivalent-to-all-stored", dict(case, refused=k), "stored", "refused")
    except Exception as e:
        acc.violation("dedup", "CircuitStorage", "raises-" + type(e).__name__, case, "bool", repr(e)[:200])
    acc.validated += 1
    return case


def replaced_case(acc, lay, base, pos, newl, only=None):
    from .c12 import wire_edges
    edited = gq.build_circuit(lay, base)
    node = wire_edges(edited, pos[0], pos[1])[pos[2]][1]
    edited.replace_op(node, gq.make_op(newl))
    idx = [k for k, l in enumerate(base) if l[0] == "1" and l[1] == "I"][0]
    same = base[:idx] + [newl] + base[idx + 1:]
    without = base[:idx] + base[idx + 1:]
    for method in ("direct", "is_isomorphic"):
        for other, exp in ((same, True), (without, None)):
            case = {"layout": list(lay), "a": {"built": base, "then_replace_op": [list(pos), newl]}, "b": other, "method": method}
            acc.evaluations += 1
            acc.transitions += 1
            try:
                r = bool(edited.compare(gq.build_circuit(lay, other), method=method))
                r2 = bool(gq.build_circuit(lay, other).compare(edited, method=method))
            except Exception as e:
                acc.violation("compare", method, "raises-" + type(e).__name__, case, "a bool", repr(e)[:200])
                continue
            if exp is True and not (r and r2):
                acc.violation("insensitive", method, "edited-circuit-not-equal-to-the-same-circuit-built-directly", case, True, [r, r2])
            if exp is None and (r or r2) and not equivalent(lay, same, other, method == "is_isomorphic"):
                acc.violation("soundness", method, "inequivalent-circuits-reported-equal", case, False, True)
            acc.nontriv(("replaced", repr(base), method, repr(other)))


def replay_case(case, acc):
    if "list" in case:
        list_case(acc, tuple(case["layout"]), case["list"])
        return
    if isinstance(case.get("a"), dict) and "then_replace_op" in case["a"]:
        pos, newl = case["a"]["then_replace_op"]
        replaced_case(acc, tuple(case["layout"]), case["a"]["built"], tuple(pos), newl)
        return
    la = tuple(case.get("layout_a", case.get("layout")))
    lb = tuple(case.get("layout_b", case.get("layout")))
    a = case["a"]
    b = a if case["b"] == "copy" else case["b"]
    ca, cb = gq.build_circuit(la, a), gq.build_circuit(lb, b)
    r = compare(acc, ca, cb, case["method"], case)
    r2 = compare(acc, cb, ca, case["method"], dict(case, swapped=True))
    if r is not None and r2 is not None and r != r2:
        acc.violation("symmetric", case["method"], "answer-depends-on-argument-order", case, r, r2)
    if a == b and r is False:
        acc.violation("reflexive", case["method"], "circuit-not-equal-to-itself", case, True, False)
    if la == lb and r and not equivalent(la, a, b, case["method"] == "is_isomorphic"):
        acc.violation("soundness", case["method"], "inequivalent-circuits-reported-equal", case, False, True)
    if la == lb and r is False and (case["b"] == "copy" or b in variants(a) or a == b):
        acc.violation("insensitive", case["method"], "wrapping-or-identity-changes-the-answer", case, True, r)


def _parallel_cnots(case):
    """both programs contain two consecutive two-register operations on the same pair of registers."""
    def has(p):
        ops2 = [l for l in p if l[0] in ("CNOT", "CZ")]
        for x, y in zip(ops2, ops2[1:]):
            if {(x[1], x[2]), (x[3], x[4])} == {(y[1], y[2]), (y[3], y[4])}:
                return True
        return False
    return isinstance(case.get("a"), list) and isinstance(case.get("b"), list) and has(case["a"]) and has(case["b"])


PREDICATES = {"both_have_consecutive_two_qubit_ops_on_same_register_pair": _parallel_cnots}
