"""C16 - relabelling, isomorph search and LC-orbit walks stay in the equivalence class.

Engine A: every graph n<=4 x every permutation (relabel / get_relabel_map); iso_finder over a parameter grid with the generator's
answers owned by the explorer (full enumeration at n=3, deviation-bounded at n=4 and n=8) and with real seeds; every orbit explorer on
every graph where its pre-condition holds.  Oracle: R5 (relabelling by definition, brute-force isomorphism, orbit by BFS).
"""
import itertools
import math
import numpy as np
import networkx as nx

from .. import core, gq
from ..explore import explore
from ..env import Owned
from ..ref import spaces, graphs as G

ID = "C16"
META = {
    "engine": "A (exhaustive inputs x parameter grid x owned generator answers) with B-computed reference orbits",
    "rule": "a case = (graph, function, parameters, generator answers); non-trivial = graph has an edge and is not complete; distinct = distinct cases",
    "bounds": {"quick": "relabel/get_relabel_map: all graphs n<=4 x all permutations; iso_finder: all graphs n<=3 with <=3 non-default generator answers, n=4 with <=1, "
                        "real seeds {0,1,2}; 8-vertex structured graphs with real seeds 0..7 (generator not enumerable there); orbit explorers on all graphs n<=4 (lc_orbit_finder parameter grid, random draws <=1 deviation), "
                        "repeater graphs 4,6,8, paths 2..8",
               "thorough": "n=5 everywhere, <=2 deviations"},
    "assumptions": ["per-call horizon 30 s of CPU time", "'input first' is demanded when sort_emit is False; 'pairwise different' means different labelled graphs"],
}
HORIZON = 30.0


def adj(n, edges):
    a = np.zeros((n, n), dtype=int)
    for u, v in edges:
        a[u, v] = a[v, u] = 1
    return a


def edges_of_adj(a):
    a = np.asarray(a)
    n = a.shape[0]
    return frozenset((i, j) for i in range(n) for j in range(i + 1, n) if a[i, j] != 0)


def iso_brute(n, e1, e2):
    if n <= 6:
        return G.isomorphic(n, e1, e2)
    g1 = nx.Graph(); g1.add_nodes_from(range(n)); g1.add_edges_from(e1)
    g2 = nx.Graph(); g2.add_nodes_from(range(n)); g2.add_edges_from(e2)
    return nx.is_isomorphic(g1, g2)


def shards(tier):
    out = []
    nmax = 4 if tier == "quick" else 5
    for n in range(1, nmax + 1):
        ng = 1 << (n * (n - 1) // 2)
        step = 8 if n <= 4 else 16
        for a in range(0, ng, step):
            out.append({"kind": "relabel", "n": n, "lo": a, "hi": min(ng, a + step)})
            out.append({"kind": "orbit", "n": n, "lo": a, "hi": min(ng, a + step)})
    for n in (1, 2):
        out.append({"kind": "iso", "n": n, "lo": 0, "hi": 1 << (n * (n - 1) // 2), "dev": None})
    for a in range(8):
        out.append({"kind": "iso", "n": 3, "lo": a, "hi": a + 1, "dev": None})
    for a in range(0, 64, 2):
        out.append({"kind": "iso", "n": 4, "lo": a, "hi": a + 2, "dev": 1 if tier == "quick" else 2})
    for nm in ("path", "star", "cycle", "complete", "empty", "repeater"):
        out.append({"kind": "iso8", "name": nm, "dev": 1})
    out.append({"kind": "special"})
    return out


def check_iso_result(acc, n, e0, res, n_iso, sort_emit, label_map, case, site):
    maps = None
    if isinstance(res, tuple):
        res, maps = res
    try:
        arrs = [np.asarray(x) for x in res]
    except Exception as e:
        acc.violation("iso", site, "malformed-result", case, "array of adjacency matrices", repr(e)[:200])
        return
    if len(arrs) > n_iso:
        acc.violation("iso", site, "more-than-requested", case, n_iso, len(arrs))
    if len(arrs) == 0:
        acc.violation("iso", site, "empty-result", case, ">=1", 0)
        return
    es = []
    for a in arrs:
        if a.shape != (n, n) or not np.array_equal(a, a.T):
            acc.violation("iso", site, "entry-is-not-an-adjacency-matrix", case, "(n,n) symmetric", str(a.shape))
            return
        es.append(edges_of_adj(a))
    if not sort_emit and es[0] != G.norm(e0):
        acc.violation("iso", site, "input-not-first", case, sorted(G.norm(e0)), sorted(es[0]))
    if sort_emit and G.norm(e0) not in es:
        acc.violation("iso", site, "input-missing", case, sorted(G.norm(e0)), [sorted(x) for x in es][:3])
    if len(set(es)) != len(es):
        acc.violation("iso", site, "duplicate-adjacency-matrices", case, "pairwise distinct", [sorted(x) for x in es])
    for e in es:
        if not iso_brute(n, G.norm(e0), e):
            acc.violation("iso", site, "entry-not-isomorphic-to-input", case, sorted(G.norm(e0)), sorted(e))
            break
    if maps is not None:
        if len(maps) < len(arrs):
            acc.violation("iso", site, "fewer-label-maps-than-graphs", case, len(arrs), len(maps))
        for m, e in zip(maps, es):
            bad = bad_map(n, G.norm(e0), e, m)
            if bad:
                acc.violation("iso", site, "label-map-not-an-isomorphism", case, "isomorphism", bad)
                break


def bad_map(n, e1, e2, m):
    m = {k: v for k, v in dict(m).items() if k != -1}
    if sorted(m.keys()) != list(range(n)) or sorted(m.values()) != list(range(n)):
        return "not a bijection on 0..n-1: %r" % (m,)
    img = G.norm((m[a], m[b]) for a, b in e1)
    if img != e2:
        return "edges not carried onto edges: %r" % (m,)
    return None


def call_iso(acc, n, e0, params, chooser_mode, dev_bound, seed, answers=None):
    """iso_finder with the generator owned (chooser_mode) or really seeded; answers: replay exactly one recorded execution."""
    from graphiq.utils.relabel_module import iso_finder
    a0 = adj(n, e0)
    case = {"n": n, "edges": [list(e) for e in e0], "params": params, "seed": seed, "owned": chooser_mode}
    kw = dict(params)
    n_iso = kw.pop("n_iso")
    if n_iso > math.factorial(n):
        # documented refusal
        try:
            iso_finder(a0.copy(), n_iso, seed=0, **kw)
            acc.violation("iso", "iso_finder", "n_iso-beyond-n!-accepted", case, "AssertionError", "returned")
        except AssertionError:
            acc.refusal("n_iso > n! refused")
        except Exception as e:
            acc.violation("iso", "iso_finder", "raises-" + type(e).__name__, case, "AssertionError", repr(e)[:200])
        return
    if not chooser_mode:
        acc.evaluations += 1
        acc.transitions += 1
        try:
            with core.time_limit(HORIZON):
                res = iso_finder(a0.copy(), n_iso, seed=seed, **kw)
        except Exception as e:
            acc.violation("iso", "iso_finder", "raises-" + type(e).__name__, case, "isomorphs", repr(e)[:200])
            return
        check_iso_result(acc, n, e0, res, n_iso, kw.get("sort_emit", False), kw.get("label_map", False), case, "iso_finder")
        acc.validated += 1
        return

    def body(ch):
        import warnings
        with warnings.catch_warnings():
            warnings.simplefilter("ignore")
            with Owned(ch, dev=dev_bound is not None):
                try:
                    with core.time_limit(HORIZON):
                        return ("ok", iso_finder(a0.copy(), n_iso, seed=None, **kw))
                except Exception as e:
                    return ("exc", e)
    for ch, (status, res) in (_one(body, answers) if answers is not None else explore(body, dev_bound=dev_bound, max_exec=3000)):
        acc.evaluations += 1
        acc.transitions += 1
        c2 = dict(case, answers=ch.choices)
        if status == "exc":
            acc.violation("iso", "iso_finder", "raises-" + type(res).__name__, c2, "isomorphs", repr(res)[:200])
            continue
        check_iso_result(acc, n, e0, res, n_iso, kw.get("sort_emit", False), kw.get("label_map", False), c2, "iso_finder")
        acc.validated += 1
    if explore.capped:
        acc.caps_hit += 1


def _one(body, answers):
    from ..explore import Chooser
    ch = Chooser(list(answers))
    yield ch, body(ch)
    explore.capped = False


def iso_grid(n):
    grid = []
    for n_iso in (1, 2, 3, 5, 7):
        for thr in (0.05, 0.9):
            for ex in (True, False):
                grid.append({"n_iso": n_iso, "rel_inc_thresh": thr, "allow_exhaustive": ex})
    grid.append({"n_iso": 3, "sort_emit": True})
    grid.append({"n_iso": 3, "label_map": True})
    grid.append({"n_iso": 4, "sort_emit": True, "label_map": True, "thresh": 1})
    return grid


def check_orbit_list(acc, n, e0, res, distinct, case, site, orbit=None):
    try:
        es = [G.edges_of_nx(g, list(range(n))) if sorted(g.nodes()) == list(range(n)) else None for g in res]
    except Exception as e:
        acc.violation("orbit", site, "malformed-result", case, "list of graphs", repr(e)[:200])
        return
    if any(e is None for e in es):
        acc.violation("orbit", site, "graph-with-other-vertex-set", case, "vertices 0..n-1", "differs")
        return
    if orbit is None:
        orbit = G.lc_orbit(n, G.norm(e0))
    for e in es:
        if e not in orbit:
            acc.violation("orbit", site, "graph-outside-the-LC-orbit", case, "member of the orbit of the input", sorted(e))
            break
    if distinct and len(set(es)) != len(es):
        acc.violation("orbit", site, "repeated-graph", case, "pairwise different", [sorted(e) for e in es])


def do_relabel(acc, rm, n, e0, a0, perm):
    case = {"n": n, "edges": [list(e) for e in e0], "perm": list(perm)}
    acc.evaluations += 2
    acc.transitions += 2
    want = G.relabel(G.norm(e0), perm)
    try:
        r = rm.relabel(a0.copy(), np.array(perm))
        if np.asarray(r).shape != (n, n) or edges_of_adj(r) != want or not np.array_equal(r, np.asarray(r).T):
            acc.violation("relabel", "relabel", "wrong-graph", case, sorted(want), sorted(edges_of_adj(r)))
            return case
    except Exception as e:
        acc.violation("relabel", "relabel", "raises-" + type(e).__name__, case, sorted(want), repr(e)[:200])
        return case
    for form in ("array", "nx", "nx-relabelled"):
        try:
            if form == "array":
                m = rm.get_relabel_map(a0.copy(), np.asarray(r).copy())
            elif form == "nx":
                m = rm.get_relabel_map(gq.nx_graph(n, e0), gq.nx_graph(n, sorted(want)))
            else:
                # the relabelled graph as networkx produces it: same insertion order, new names
                g1 = gq.nx_graph(n, e0)
                m = rm.get_relabel_map(g1, nx.relabel_nodes(g1, dict(enumerate(perm))))
            bad = bad_map(n, G.norm(e0), want, m)
            if bad:
                acc.violation("relabel", "get_relabel_map", "map-is-not-an-isomorphism", dict(case, form=form), "isomorphism", bad)
        except Exception as e:
            acc.violation("relabel", "get_relabel_map", "raises-" + type(e).__name__, dict(case, form=form), "a map", repr(e)[:200])
    acc.validated += 1
    return case


def do_orbit_det(acc, rm, n, e0, orbit, cd, ost, wi, rep):
    g0 = gq.nx_graph(n, e0)
    case = {"n": n, "edges": [list(e) for e in e0], "comp_depth": cd, "orbit_size_thresh": ost, "with_iso": wi, "rep_allowed": rep, "rand": False}
    acc.evaluations += 1
    acc.transitions += 1
    try:
        with core.time_limit(HORIZON):
            res = rm.lc_orbit_finder(g0.copy(), comp_depth=cd, orbit_size_thresh=ost, with_iso=wi, rand=False, rep_allowed=rep)
    except Exception as e:
        acc.violation("orbit", "lc_orbit_finder", "raises-" + type(e).__name__, case, "list of graphs", repr(e)[:200])
        return
    check_orbit_list(acc, n, e0, res, not rep, case, "lc_orbit_finder", orbit)
    if ost is not None and len(res) > ost:
        acc.violation("orbit", "lc_orbit_finder", "more-than-orbit_size_thresh", case, ost, len(res))
    acc.validated += 1


def do_orbit_rand(acc, rm, n, e0, orbit, cd, ost, answers=None):
    g0 = gq.nx_graph(n, e0)
    case = {"n": n, "edges": [list(e) for e in e0], "comp_depth": cd, "orbit_size_thresh": ost, "rand": True}

    def body(ch):
        with Owned(ch, dev=True):
            try:
                with core.time_limit(HORIZON):
                    return ("ok", rm.lc_orbit_finder(g0.copy(), comp_depth=cd, orbit_size_thresh=ost, rand=True))
            except Exception as e:
                return ("exc", e)
    for ch, (status, res) in (_one(body, answers) if answers is not None else explore(body, dev_bound=1, max_exec=400)):
        acc.evaluations += 1
        acc.transitions += 1
        c2 = dict(case, answers=ch.choices)
        if status == "exc":
            acc.violation("orbit", "lc_orbit_finder:rand", "raises-" + type(res).__name__, c2, "list of graphs", repr(res)[:200])
            continue
        check_orbit_list(acc, n, e0, res, True, c2, "lc_orbit_finder:rand", orbit)
        acc.validated += 1
    if explore.capped:
        acc.caps_hit += 1


def do_named(acc, rm, fn, n, e0, orbit=None):
    case = {"n": n, "edges": [list(e) for e in e0], "fn": fn}
    acc.evaluations += 1
    try:
        with core.time_limit(HORIZON):
            res = getattr(rm, fn)(gq.nx_graph(n, e0))
        check_orbit_list(acc, n, e0, res, fn != "depth_first_orbit", case, fn, orbit)
        return True
    except Exception as e:
        acc.violation("orbit", fn, "raises-" + type(e).__name__, case, "list of graphs", repr(e)[:200])
        return False


def run_shard(shard, tier, acc):
    import graphiq.utils.relabel_module as rm
    kind = shard["kind"]
    if kind == "relabel":
        n = shard["n"]
        pairs = list(itertools.combinations(range(n), 2))
        for mask in range(shard["lo"], shard["hi"]):
            e0 = [p for i, p in enumerate(pairs) if (mask >> i) & 1]
            a0 = adj(n, e0)
            for perm in itertools.permutations(range(n)):
                case = do_relabel(acc, rm, n, e0, a0, perm)
            acc.state((n, mask))
            if e0 and len(e0) < len(pairs):
                acc.nontriv((n, mask))
        acc.sample(case)
    elif kind == "iso":
        n = shard["n"]
        pairs = list(itertools.combinations(range(n), 2))
        for mask in range(shard["lo"], shard["hi"]):
            e0 = [p for i, p in enumerate(pairs) if (mask >> i) & 1]
            for params in iso_grid(n):
                for seed in (0, 1, 2):
                    call_iso(acc, n, e0, params, False, None, seed)
                if n <= 3:
                    call_iso(acc, n, e0, params, True, 3, None)
                elif params["n_iso"] <= 3 or shard["dev"] == 2:
                    call_iso(acc, n, e0, params, True, shard["dev"] or 1, None)
            acc.state(("iso", n, mask))
            if e0 and len(e0) < len(pairs):
                acc.nontriv(("iso", n, mask))
        acc.sample({"n": n, "edges": [list(e) for e in e0], "params": iso_grid(n)[0]})
    elif kind == "iso8":
        n = 8
        e0 = structured(shard["name"], n)
        for params in ({"n_iso": 3}, {"n_iso": 5, "thresh": 3}, {"n_iso": 4, "allow_exhaustive": False, "rel_inc_thresh": 0.9}, {"n_iso": 6, "label_map": True, "sort_emit": True}):
            # n >= 8 branch (rng.permutation): real generator only.  Under the explorer's default answers (always the identity
            # permutation) the adaptive loop escalates to its exhaustive fallback and draws n! = 40320 samples, which is not enumerable.
            for seed in range(8):
                call_iso(acc, n, e0, params, False, None, seed)
        acc.nontriv(("iso8", shard["name"]))
    elif kind == "orbit":
        n = shard["n"]
        pairs = list(itertools.combinations(range(n), 2))
        for mask in range(shard["lo"], shard["hi"]):
            e0 = [p for i, p in enumerate(pairs) if (mask >> i) & 1]
            orbit = G.lc_orbit(n, G.norm(e0))
            g0 = gq.nx_graph(n, e0)
            for cd, ost, wi, rep in itertools.product((None, 1, 2), (None, 1, 3), (False, True), (False, True)):
                if rep and cd is None:
                    continue  # repetitions allowed without a depth bound never terminates by design
                do_orbit_det(acc, rm, n, e0, orbit, cd, ost, wi, rep)
            # random walk variant: draws owned, <= 1 deviation
            for cd, ost in ((1, None), (2, 3)):
                do_orbit_rand(acc, rm, n, e0, orbit, cd, ost)
            if n >= 2:
                do_named(acc, rm, "depth_first_orbit", n, e0, orbit)
            acc.state(("orbit", n, mask))
            if e0 and len(e0) < len(pairs):
                acc.nontriv(("orbit", n, mask))
        acc.sample({"n": n, "edges": [list(e) for e in e0], "fn": "lc_orbit_finder"})
    elif kind == "special":
        for m in (4, 6, 8):
            if do_named(acc, rm, "rgs_orbit_finder", m, structured("repeater", m)):
                acc.nontriv(("rgs", m))
        for m in range(3, 9):
            if do_named(acc, rm, "linear_partial_orbit", m, structured("path", m)):
                acc.nontriv(("linear", m))


def structured(name, n):
    if name == "path":
        return [(i, i + 1) for i in range(n - 1)]
    if name == "star":
        return [(0, i) for i in range(1, n)]
    if name == "cycle":
        return [(i, (i + 1) % n) if i < (i + 1) % n else ((i + 1) % n, i) for i in range(n)]
    if name == "complete":
        return list(itertools.combinations(range(n), 2))
    if name == "empty":
        return []
    if name == "repeater":
        h = n // 2
        return list(itertools.combinations(range(h), 2)) + [(i, h + i) for i in range(h)]
    raise ValueError(name)


def replay_case(case, acc):
    import graphiq.utils.relabel_module as rm
    n = case["n"]
    e0 = [tuple(e) for e in case["edges"]]
    if "perm" in case:
        do_relabel(acc, rm, n, e0, adj(n, e0), tuple(case["perm"]))
    elif "params" in case:
        call_iso(acc, n, e0, case["params"], bool(case.get("owned")), None, case.get("seed"), answers=case.get("answers") if case.get("owned") else None)
    elif "fn" in case:
        do_named(acc, rm, case["fn"], n, e0)
    elif case.get("rand"):
        do_orbit_rand(acc, rm, n, e0, G.lc_orbit(n, G.norm(e0)), case["comp_depth"], case["orbit_size_thresh"], answers=case.get("answers", []))
    else:
        do_orbit_det(acc, rm, n, e0, G.lc_orbit(n, G.norm(e0)), case["comp_depth"], case["orbit_size_thresh"], case["with_iso"], case["rep_allowed"])


PREDICATES = {}
