"""C17 - density-matrix fidelity, trace distance and partial trace.

Engine A over a finite, stated alphabet of density matrices: all stabilizer states on 1-2 qubits, non-stabilizer pure states, two-term
mixtures of them; all ordered pairs (triples for the triangle inequality); every kept subset for the partial trace.
Oracle: own Uhlmann fidelity / trace norm (numpy eigh) and reshape-trace reduced states.
"""
import itertools
import numpy as np

from .. import core, gq
from ..ref import statevec as sv, pauli as P, spaces

ID = "C17"
META = {
    "engine": "A (all ordered pairs / triples / subsets over a finite family of matrices)",
    "rule": "a case = ordered pair (or triple) of family members, or (state, kept subset); non-trivial = the two states differ and at least one is mixed or non-stabilizer; "
            "distinct = distinct index tuples",
    "bounds": {"quick": "1 qubit: 10 pure + 101 mixed (10 of them weakly mixed, purity within 1e-3 of 1), all ordered pairs and all triples of a 30-element sub-family; 2 qubits: 64 pure + 136 mixed, all 40 000 ordered pairs; "
                        "partial trace: all stabilizer states n<=3 + 30 mixed x every proper kept subset x 4 entry points; Infidelity/TraceDistance on all 3600 pairs of S_2 x 4 representation combinations",
               "thorough": "2-qubit family of 600 (360 000 ordered pairs); 3 qubits: 120 stabilizer + 4 non-stabilizer pure states + 276 mixtures (weights 1/2, 1/4, 3/4, 0.9999), all 160 000 ordered pairs; "
                           "partial trace additionally on every 17th of the 36 720 four-qubit stabilizer states x all 14 proper kept subsets; Infidelity/TraceDistance additionally on 120 targets x all 1080 states of S_3 x 4 representation combinations"},
    "assumptions": ["continuous inputs are represented by this finite family (values outside it are not covered)", "tolerance 1e-9 on fidelities and distances"],
}
TOL = 1e-9


def ket(theta, phi):
    return np.array([np.cos(theta / 2), np.exp(1j * phi) * np.sin(theta / 2)], dtype=complex)


def family1():
    pure = [sv.flat(s.vector()) for s in spaces.stabilizer_states(1)]
    pure += [ket(np.pi / 4, 0), ket(np.pi / 3, np.pi / 4), ket(1.0, 2.0), ket(2.2, -0.7)]
    mats = [np.outer(v, v.conj()) for v in pure]
    names = ["pure%d" % i for i in range(len(pure))]
    for i, j in itertools.combinations(range(len(pure)), 2):
        mats.append(0.5 * mats[i] + 0.5 * mats[j]); names.append("mix(%d,%d,1/2)" % (i, j))
    for i in range(len(pure)):
        j = (3 * i + 1) % len(pure)
        if j != i:
            mats.append(0.25 * mats[i] + 0.75 * mats[j]); names.append("mix(%d,%d,1/4)" % (i, j))
    mats.append(np.eye(2, dtype=complex) / 2); names.append("maxmixed")
    for i, j in ((0, 2), (1, 4), (6, 3), (7, 9), (2, 8)):
        for w in (0.9997, 0.9999):  # weakly mixed: purity within 1e-3 of 1
            mats.append(w * mats[i] + (1 - w) * mats[j]); names.append("mix(%d,%d,%g)" % (i, j, w))
    return mats, names


def family2(size):
    pure = [sv.flat(s.vector()) for s in spaces.stabilizer_states(2)]
    a, b = ket(np.pi / 4, 0), ket(1.0, 2.0)
    pure += [np.kron(a, b), np.kron(b, a), (np.kron(a, a) + np.kron(b, b)) / np.linalg.norm(np.kron(a, a) + np.kron(b, b)),
             np.array([np.cos(0.3), 0, 0, np.exp(0.4j) * np.sin(0.3)], dtype=complex)]
    mats = [np.outer(v, v.conj()) for v in pure]
    names = ["pure%d" % i for i in range(len(pure))]
    k = 0
    n = len(pure)
    while len(mats) < size:
        i = k % n
        j = (7 * k + 3 + k // n) % n
        w = (0.5, 0.25, 0.75)[(k // n) % 3]
        if i != j:
            mats.append(w * mats[i] + (1 - w) * mats[j]); names.append("mix(%d,%d,%g)" % (i, j, w))
        k += 1
    return mats, names


def family3(size):
    st = spaces.stabilizer_states(3)
    pure = [sv.flat(st[i].vector()) for i in range(0, len(st), 9)]
    a, b = ket(np.pi / 4, 0), ket(1.0, 2.0)
    w3 = np.zeros(8, dtype=complex); w3[[1, 2, 4]] = 1 / np.sqrt(3)
    pure += [np.kron(np.kron(a, b), a), np.kron(b, np.kron(a, a)), w3, (np.kron(a, np.kron(a, a)) + np.kron(b, np.kron(b, b))) / np.linalg.norm(np.kron(a, np.kron(a, a)) + np.kron(b, np.kron(b, b)))]
    mats = [np.outer(v, v.conj()) for v in pure]
    names = ["pure%d" % i for i in range(len(pure))]
    k = 0
    n = len(pure)
    while len(mats) < size:
        i = k % n
        j = (11 * k + 5 + k // n) % n
        w = (0.5, 0.25, 0.75, 0.9999)[(k // n) % 4]
        if i != j:
            mats.append(w * mats[i] + (1 - w) * mats[j]); names.append("mix(%d,%d,%g)" % (i, j, w))
        k += 1
    return mats, names


SIZE3 = 400


def family(q, size=None):
    return family1() if q == 1 else family2(size or 600) if q == 2 else family3(size or SIZE3)


def prepare(tier):
    if tier != "quick":
        spaces.stabilizer_states(4)  # built once in the parent; the forked workers share it


def shards(tier):
    out = []
    m1, _ = family1()
    for a in range(0, len(m1), 8):
        out.append({"kind": "pairs", "q": 1, "lo": a, "hi": min(len(m1), a + 8)})
    size2 = 200 if tier == "quick" else 600
    for a in range(0, size2, 5 if tier == "quick" else 10):
        out.append({"kind": "pairs", "q": 2, "lo": a, "hi": min(size2, a + (5 if tier == "quick" else 10)), "size": size2})
    if tier != "quick":
        for a in range(0, SIZE3, 10):
            out.append({"kind": "pairs", "q": 3, "lo": a, "hi": min(SIZE3, a + 10), "size": SIZE3})
        for a in range(0, 1080, 27):
            out.append({"kind": "metric", "n": 3, "lo": a, "hi": a + 27, "istep": 9})
        n4 = len(spaces.stabilizer_states(4))
        for a in range(0, n4, 17 * 60):
            out.append({"kind": "ptrace", "n": 4, "lo": a, "hi": min(n4, a + 17 * 60), "step": 17})
    out.append({"kind": "triples"})
    for n in (2, 3):
        ns = len(spaces.stabilizer_states(n))
        for a in range(0, ns, 60):
            out.append({"kind": "ptrace", "n": n, "lo": a, "hi": min(ns, a + 60)})
    out.append({"kind": "ptrace_mixed"})
    for a in range(0, 60, 4):
        out.append({"kind": "metric", "lo": a, "hi": a + 4})
    return out


_INF = {}


def check_pair(acc, rho, sig, case, equal):
    import graphiq.backends.density_matrix.functions as dmf
    acc.evaluations += 1
    acc.transitions += 1
    want_f = sv.uhlmann_fidelity(rho, sig)
    want_t = sv.trace_distance(rho, sig)
    f = None
    try:
        f = float(dmf.fidelity(rho.copy(), sig.copy()))
    except Warning as e:
        acc.violation("fidelity", "dmf.fidelity", "raises-Warning", case, want_f, repr(e)[:160])
    except Exception as e:
        acc.violation("fidelity", "dmf.fidelity", "raises-" + type(e).__name__, case, want_f, repr(e)[:160])
    if f is not None:
        if not (-TOL <= f <= 1 + TOL):
            acc.violation("fidelity", "dmf.fidelity", "outside-[0,1]", case, want_f, f)
        elif abs(f - want_f) > 1e-7:
            acc.violation("fidelity", "dmf.fidelity", "differs-from-uhlmann", case, want_f, f)
        if equal and abs(f - 1) > 1e-7:
            acc.violation("fidelity", "dmf.fidelity", "not-1-for-equal-states", case, 1.0, f)
        if not equal and f > 1 - 1e-9:
            acc.violation("fidelity", "dmf.fidelity", "1-for-different-states", case, want_f, f)
    t = None
    try:
        t = float(dmf.trace_distance(rho.copy(), sig.copy()))
    except Exception as e:
        acc.violation("distance", "dmf.trace_distance", "raises-" + type(e).__name__, case, want_t, repr(e)[:160])
    if t is not None:
        if abs(t - want_t) > 1e-7:
            acc.violation("distance", "dmf.trace_distance", "differs-from-half-trace-norm", case, want_t, t)
        if t > 1 + TOL or t < -TOL:
            acc.violation("distance", "dmf.trace_distance", "outside-[0,1]", case, want_t, t)
        if f is not None and abs(f - want_f) <= 1e-7:
            if t < 1 - np.sqrt(max(f, 0)) - 1e-7 or t > np.sqrt(max(1 - f, 0)) + 1e-7:
                acc.violation("fvdg", "dmf", "fuchs-van-de-graaf-violated", case, [1 - np.sqrt(f), np.sqrt(1 - f)], t)
    acc.validated += 1
    return f, t


def run_shard(shard, tier, acc):
    import graphiq.backends.density_matrix.functions as dmf
    kind = shard["kind"]
    if kind == "pairs":
        mats, names = family(shard["q"], shard.get("size"))
        vals = {}
        for i in range(shard["lo"], shard["hi"]):
            for j in range(len(mats)):
                case = {"qubits": shard["q"], "rho": names[i], "sigma": names[j]}
                eq = np.allclose(mats[i], mats[j], atol=1e-12)
                r = check_pair(acc, mats[i], mats[j], case, eq)
                r2 = check_pair(acc, mats[j], mats[i], {"qubits": shard["q"], "rho": names[j], "sigma": names[i]}, eq)
                if r[0] is not None and r2[0] is not None and abs(r[0] - r2[0]) > 1e-7:
                    acc.violation("fidelity", "dmf.fidelity", "not-symmetric", case, r[0], r2[0])
                if r[1] is not None and r2[1] is not None and abs(r[1] - r2[1]) > 1e-7:
                    acc.violation("distance", "dmf.trace_distance", "not-symmetric", case, r[1], r2[1])
                acc.state((shard["q"], round(sv.uhlmann_fidelity(mats[i], mats[j]), 6)))
                if not eq and ("mix" in names[i] or "mix" in names[j] or i >= 6 or j >= 6):
                    acc.nontriv((shard["q"], i, j))
        acc.sample(case)
    elif kind == "triples":
        mats, names = family1()
        idx = list(range(0, len(mats), max(1, len(mats) // 30)))[:30]
        T = {}
        for i in idx:
            for j in idx:
                try:
                    T[(i, j)] = float(dmf.trace_distance(mats[i].copy(), mats[j].copy()))
                except Exception:
                    T[(i, j)] = None
        for i, j, k in itertools.product(idx, repeat=3):
            acc.evaluations += 1
            if None in (T[(i, j)], T[(j, k)], T[(i, k)]):
                continue
            if T[(i, k)] > T[(i, j)] + T[(j, k)] + 1e-7:
                acc.violation("distance", "dmf.trace_distance", "triangle-inequality-violated", {"a": names[i], "b": names[j], "c": names[k]},
                              T[(i, j)] + T[(j, k)], T[(i, k)])
            acc.nontriv(("tri", i, j, k))
    elif kind in ("ptrace", "ptrace_mixed"):
        from graphiq.backends.density_matrix.state import DensityMatrix
        from graphiq.state import QuantumState
        items = []
        if kind == "ptrace":
            n = shard["n"]
            st = spaces.stabilizer_states(n)
            for i in range(shard["lo"], shard["hi"], shard.get("step", 1)):
                items.append((n, sv.dm(st[i].vector()), {"n": n, "state": st[i].strings()}))
        else:
            for n in (2, 3):
                st = spaces.stabilizer_states(n)
                for k in range(15):
                    a, b = st[(37 * k + 5) % len(st)], st[(91 * k + 11) % len(st)]
                    w = (0.5, 0.25)[k % 2]
                    items.append((n, w * sv.dm(a.vector()) + (1 - w) * sv.dm(b.vector()), {"n": n, "mix": [a.strings(), b.strings(), w]}))
        for n, rho, desc in items:
            for r in range(1, n):
                for keep in itertools.combinations(range(n), r):
                    case = pt_case(acc, n, rho, desc, keep)
            acc.state(core.jdump(desc))
        acc.sample(case)
    elif kind == "metric":
        st = spaces.stabilizer_states(shard.get("n", 2))
        _INF.clear()  # one metric object per shard: the history a case depends on is the shard's own prefix
        for i in range(shard["lo"], shard["hi"], shard.get("istep", 1)):
            for j in range(0, len(st), shard.get("step", 1)):
                metric_case(acc, st[i], st[j], {"n": shard.get("n", 2), "i0": shard["lo"], "istep": shard.get("istep", 1), "step": shard.get("step", 1), "i": i, "j": j})
                acc.nontriv(("metric", shard.get("n", 2), i, j))


def pt_case(acc, n, rho, desc, keep):
    import graphiq.backends.density_matrix.functions as dmf
    from graphiq.backends.density_matrix.state import DensityMatrix
    from graphiq.state import QuantumState
    want = sv.partial_trace(rho, n, list(keep))
    case = dict(desc, keep=list(keep))
    calls = {
        "dmf.partial_trace": lambda: dmf.partial_trace(rho.copy(), list(keep), [2] * n),
        "DensityMatrix.partial_trace": lambda: _dm_pt(DensityMatrix(rho.copy()), keep, n),
        "QuantumState.partial_trace": lambda: _qs_pt(QuantumState(rho.copy(), rep_type="dm"), keep, n),
    }
    if len(keep) == n - 1:
        drop = [q for q in range(n) if q not in keep][0]
        calls["dmf.trace_out_qubit"] = lambda: dmf.trace_out_qubit(rho.copy(), drop)
    for site, fn in calls.items():
        acc.evaluations += 1
        acc.transitions += 1
        try:
            got = np.asarray(fn())
        except Exception as e:
            acc.violation("ptrace", site, "raises-" + type(e).__name__, case, "reduced state", repr(e)[:160])
            continue
        if got.shape != want.shape or np.max(np.abs(got - want)) > 1e-9:
            acc.violation("ptrace", site, "differs-from-reduced-state", case, np.round(want, 6).tolist(),
                          np.round(got, 6).tolist() if got.size <= 64 else str(got.shape))
        acc.validated += 1
    acc.nontriv((core.jdump(desc), tuple(keep)))
    return case


def metric_case(acc, gi, gj, hist=None):
    """hist: the metric object has been reused since target index i0 of S_n (replay re-runs that prefix)."""
    from graphiq.state import QuantumState
    from graphiq.metrics import Infidelity, TraceDistance
    va, vb = gi.vector(), gj.vector()
    want = 1 - sv.overlap2(va, vb)
    vals = {}
    for ta, tb in itertools.product(("dm", "s"), repeat=2):
        case = {"target": gi.strings(), "state": gj.strings(), "target_rep": ta, "state_rep": tb}
        if hist:
            case["metric_reused_since"] = hist
        acc.evaluations += 1
        acc.transitions += 1
        tgt = QuantumState(sv.dm(va), rep_type="dm") if ta == "dm" else QuantumState(gq.group_to_clifford_tableau(gi), rep_type="s")
        sta = QuantumState(sv.dm(vb), rep_type="dm") if tb == "dm" else QuantumState(gq.group_to_clifford_tableau(gj), rep_type="s")
        try:
            # one metric object is reused and its target re-pointed, as a sweep over targets would do
            met = _INF.get("m")
            if met is None:
                met = _INF["m"] = Infidelity(tgt)
            met.target = tgt
            v = float(met.evaluate(sta, None))
            vals[(ta, tb)] = v
            okt = gq.tableau_group(tgt.rep_data.data).same_state(gi) if (tgt.rep_type == "s" and type(tgt.rep_data).__name__ == "Stabilizer") else (
                tgt.rep_type == "dm" and np.max(np.abs(np.asarray(tgt.rep_data.data) - sv.dm(va))) < 1e-9)
            oks = gq.tableau_group(sta.rep_data.data).same_state(gj) if (sta.rep_type == "s" and type(sta.rep_data).__name__ == "Stabilizer") else (
                sta.rep_type == "dm" and np.max(np.abs(np.asarray(sta.rep_data.data) - sv.dm(vb))) < 1e-9)
            if ta != tgt.rep_type or tb != sta.rep_type or not okt or not oks:
                acc.violation("metric", "Infidelity.evaluate", "target-or-state-object-changed-by-evaluation", case, "unchanged", {"target_ok": bool(okt), "state_ok": bool(oks)})
            if abs(v - want) > 1e-7:
                acc.violation("metric", "Infidelity.evaluate", "differs-from-1-minus-overlap", case, want, v)
        except Exception as e:
            acc.violation("metric", "Infidelity.evaluate", "raises-%s" % type(e).__name__, case, want, repr(e)[:160])
        if ta == "dm":
            try:
                t = float(TraceDistance(tgt).evaluate(sta, None))
                wt = sv.trace_distance(sv.dm(va), sv.dm(vb))
                if abs(t - wt) > 1e-7:
                    acc.violation("metric", "TraceDistance.evaluate", "differs-from-half-trace-norm", case, wt, t)
            except Exception as e:
                acc.violation("metric", "TraceDistance.evaluate", "raises-%s" % type(e).__name__, case, "a number", repr(e)[:160])
        acc.validated += 1
    if len(set(round(v, 7) for v in vals.values())) > 1:
        acc.violation("metric", "Infidelity.evaluate", "value-depends-on-representation", dict({"target": gi.strings(), "state": gj.strings()}, **({"metric_reused_since": hist} if hist else {})),
                      want, {"%s/%s" % k: v for k, v in vals.items()})


def _dm_pt(d, keep, n):
    d.partial_trace(list(keep), [2] * n)
    return d.data


def _qs_pt(q, keep, n):
    q.partial_trace(list(keep), [2] * n)
    return q.rep_data.data


def _find_state(strings):
    n = len(strings)
    for g in spaces.stabilizer_states(n):
        if g.strings() == list(strings):
            return g
    raise core.HarnessError("no stabilizer state with generators %r" % (strings,))


def replay_case(case, acc):
    if "rho" in case:
        mats, names = family(case["qubits"])
        i, j = names.index(case["rho"]), names.index(case["sigma"])
        eq = np.allclose(mats[i], mats[j], atol=1e-12)
        r = check_pair(acc, mats[i], mats[j], case, eq)
        r2 = check_pair(acc, mats[j], mats[i], {"qubits": case["qubits"], "rho": names[j], "sigma": names[i]}, eq)
        if r[0] is not None and r2[0] is not None and abs(r[0] - r2[0]) > 1e-7:
            acc.violation("fidelity", "dmf.fidelity", "not-symmetric", case, r[0], r2[0])
        if r[1] is not None and r2[1] is not None and abs(r[1] - r2[1]) > 1e-7:
            acc.violation("distance", "dmf.trace_distance", "not-symmetric", case, r[1], r2[1])
    elif "a" in case and "c" in case:
        import graphiq.backends.density_matrix.functions as dmf
        mats, names = family1()
        i, j, k = (names.index(case[x]) for x in "abc")
        t = lambda x, y: float(dmf.trace_distance(mats[x].copy(), mats[y].copy()))
        if t(i, k) > t(i, j) + t(j, k) + 1e-7:
            acc.violation("distance", "dmf.trace_distance", "triangle-inequality-violated", case, t(i, j) + t(j, k), t(i, k))
    elif "keep" in case:
        n = case["n"]
        if "state" in case:
            rho, desc = sv.dm(_find_state(case["state"]).vector()), {"n": n, "state": case["state"]}
        else:
            a, b, w = case["mix"]
            rho, desc = w * sv.dm(_find_state(a).vector()) + (1 - w) * sv.dm(_find_state(b).vector()), {"n": n, "mix": case["mix"]}
        pt_case(acc, n, rho, desc, tuple(case["keep"]))
    elif "target" in case:
        _INF.clear()
        h = case.get("metric_reused_since")
        if h:
            st = spaces.stabilizer_states(h["n"])
            for i in range(h["i0"], h["i"] + 1, h["istep"]):
                for j in range(0, len(st), h["step"]):
                    if i == h["i"] and j > h["j"]:
                        break
                    metric_case(acc, st[i], st[j], dict(h, i=i, j=j))
        else:
            metric_case(acc, _find_state(case["target"]), _find_state(case["state"]))
    else:
        raise core.HarnessError("unrecognised C17 case")


def _neg(strings):
    return any(g.startswith("-") for g in strings)


def _stabilizer_held_operand_has_negative_sign(case):
    """an operand that is held as a stabilizer while the other is a density matrix has a generator with sign -"""
    if "target_rep" not in case:
        return False
    if case["target_rep"] == case["state_rep"]:
        return False
    held = case["target"] if case["target_rep"] == "s" else case["state"]
    return _neg(held)


def _some_operand_has_negative_sign(case):
    return "target" in case and "state" in case and (_neg(case["target"]) or _neg(case["state"]))


PREDICATES = {"stabilizer_held_operand_has_negative_sign": _stabilizer_held_operand_has_negative_sign,
              "some_operand_has_negative_sign": _some_operand_has_negative_sign}
