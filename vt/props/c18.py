"""C18 - circuit cost metrics equal the quantities they are defined as.

Engine A: every program of <= L operations over an alphabet without definitional ambiguity on layout (2,2,1),
time-reversed-solver circuits of every graph, and their unwrapped / grouped forms; x every metric class x
{default constructor, explicit penalty}.  Oracle: the definitions computed on the R6 list-per-register model.
"""
import itertools
import numpy as np

from .. import core, gq, solverutil as su
from ..ref.dagmodel import DagModel, qregs
from ..ref import spaces

ID = "C18"
META = {
    "engine": "A (exhaustive program enumeration)",
    "rule": "a case = (program, form in {as built, unwrapped, grouped}); every metric is evaluated twice with the default constructor and "
            "once with the penalty x -> 2x+1; non-trivial = program has >= 2 operations of which one is two-qubit or a wrapper; distinct = distinct programs",
    "bounds": {"quick": "all programs of <= 3 letters over the 17-letter alphabet on (2,2,1); all programs of <= 2 letters over 22 letters that contain CZ (emitter-emitter, emitter-photon), "
                        "MeasurementZ or a classically controlled Z; solver circuits of all graphs n<=4",
               "thorough": "<= 4 letters (<= 3 with the extra letters); solver circuits n<=5"},
    "assumptions": ["for circuits with CZ / classically controlled gates the unitary count, and for circuits with plain MeasurementZ the measurement count, are not compared: "
                    "the docstrings do not settle whether those operations are counted", "depth counts classical-register dependencies of operations added in sequence"],
}
LAYOUT = (2, 2, 1)


EXTRA = [["CZ", "e", 0, "e", 1], ["CZ", "e", 1, "p", 0], ["MZ", "e", 1, 0], ["MZ", "p", 0, 0], ["CCZ", "e", 0, "p", 1, 0]]


def alphabet():
    al = []
    for t, r in (("e", 0), ("e", 1), ("p", 0)):
        al.append(["1", "H", t, r])
    al += [["1", "X", "e", 0], ["1", "Y", "p", 0], ["1", "Z", "e", 1], ["1", "P", "p", 1], ["1", "Pdag", "e", 0], ["1", "I", "e", 0], ["1", "I", "p", 0]]
    al += [["W", ["H", "P"], "e", 0], ["W", ["X", "I"], "e", 1], ["W", ["I", "I"], "p", 0]]
    al += [["CNOT", "e", 0, "e", 1], ["CNOT", "e", 1, "e", 0], ["CNOT", "e", 0, "p", 0], ["CNOT", "e", 1, "p", 1]]
    al += [["MCR", "e", 0, "p", 0, 0], ["MCR", "e", 1, "p", 1, 0]]
    return al


def model_of(layout, program):
    m = DagModel(*layout)
    for l in program:
        m.add(l)
    return m


def definitions(m):
    """every metric from the model alone."""
    ne = m.count["e"]
    d = {}
    d["CircuitDepth"] = m.depth()
    upto = m.depth_upto()
    d["register_depth"] = {t: [max([upto[i] for i in m.wires[(t, r)]], default=0) for r in range(m.count[t])] for t in "epc"}
    d["CircuitEmitterCount"] = ne
    d["CircuitCnotCount"] = sum(1 for l in m.ops.values() if l[0] == "CNOT" and l[1] == "e" and l[3] == "e")
    u = m.copy()
    u.unwrap()
    u.remove_identity()
    d["CircuitUnitaryCount"] = sum(1 for l in u.ops.values() if l[0] == "CNOT" or (l[0] == "1" and l[1] in ("X", "Y", "Z", "P", "Pdag", "H")))
    d["CircuitMeasureCount"] = sum(1 for l in m.ops.values() if l[0] == "MCR")
    if ne:
        d["CircuitMaxEmitDepth"] = max(len(u.wires[("e", r)]) for r in range(ne))
        upto_u = u.depth_upto()
        reset, eff = [], []
        for r in range(ne):
            w = u.wires[("e", r)]
            marks = [0] + [j + 1 for j, i in enumerate(w) if u.ops[i][0] == "MCR"] + [len(w) + 1]
            reset.append(max(b - a for a, b in zip(marks, marks[1:])))
            # DAG depth of markers: Input -1, op = (longest chain ending at it) - 1, Output = longest chain ending at the wire's last op
            dep = [-1] + [upto_u[i] - 1 for i in w if u.ops[i][0] == "MCR"] + [max([upto_u[i] for i in w], default=0)]
            eff.append(max(b - a for a, b in zip(dep, dep[1:])))
        d["CircuitMaxEmitResetDepth"] = max(reset)
        d["CircuitMaxEmitEffDepth"] = max(eff)
    return d


_METRIC_OBJECTS = {}
METRICS = ["CircuitDepth", "CircuitEmitterCount", "CircuitCnotCount", "CircuitUnitaryCount", "CircuitMeasureCount",
           "CircuitMaxEmitDepth", "CircuitMaxEmitResetDepth", "CircuitMaxEmitEffDepth"]


def check_circuit(acc, circ, m, case):
    import graphiq.metrics as gm
    from .c12 import fingerprint
    want = definitions(m)
    kinds_present = {l[0] for l in m.ops.values()}
    if kinds_present & {"CZ", "CCZ", "CCNOT"}:
        want.pop("CircuitUnitaryCount", None)   # whether CZ / classically controlled gates count as "unitary gates" is not stated
    if "MZ" in kinds_present:
        want.pop("CircuitMeasureCount", None)   # whether a plain measurement counts besides measure-and-reset is not stated
    fp = fingerprint(circ)
    acc.evaluations += 1
    for name in METRICS:
        if name not in want:
            continue
        cls = getattr(gm, name)
        for ctor in ("default", "explicit"):
            acc.transitions += 1
            try:
                # one metric object per (class, constructor) is reused for all circuits of a worker, as a solver reuses its metric
                # over a whole population: anything the object remembers from an earlier circuit must not leak into the next value
                met = _METRIC_OBJECTS.get((name, ctor))
                if met is None:
                    met = _METRIC_OBJECTS[(name, ctor)] = cls() if ctor == "default" else cls(1, lambda x: 2 * x + 1)
                exp = want[name] if ctor == "default" else 2 * want[name] + 1
                v1 = met.evaluate(None, circ)
                v2 = met.evaluate(None, circ)
            except Exception as e:
                acc.violation("metric", name, "raises-%s-%s" % (type(e).__name__, ctor), case, want[name], repr(e)[:200])
                continue
            if v1 != exp or v2 != exp:
                acc.violation("metric", name, "value-differs-from-definition", dict(case, ctor=ctor), exp, [int(v1), int(v2)])
    # per-register depth
    try:
        rd = circ.register_depth
        got = {t: [int(x) for x in rd[t]] for t in "epc"}
        if got != want["register_depth"]:
            acc.violation("metric", "register_depth", "value-differs-from-definition", case, want["register_depth"], got)
        if int(circ.depth) != want["CircuitDepth"]:
            acc.violation("metric", "CircuitDAG.depth", "value-differs-from-definition", case, want["CircuitDepth"], int(circ.depth))
    except Exception as e:
        acc.violation("metric", "register_depth", "raises-" + type(e).__name__, case, want["register_depth"], repr(e)[:200])
    if fingerprint(circ) != fp:
        acc.violation("purity", "Metric.evaluate", "circuit-changed-by-metric", case, "unchanged", "changed")
    acc.validated += 1
    acc.state(tuple(sorted((k, repr(v)) for k, v in want.items())))


def check_program(acc, layout, program, tag=None):
    case = {"layout": list(layout), "program": program}
    if tag:
        case["source"] = tag
    for form in ("built", "unwrapped", "grouped"):
        circ = gq.build_circuit(layout, program)
        m = model_of(layout, program)
        if form == "unwrapped":
            circ.unwrap_nodes()
            m.unwrap()
        elif form == "grouped":
            try:
                circ.group_one_qubit_gates()
            except Exception as e:
                acc.refusal("group raised " + type(e).__name__)
                continue
            m.group()
        check_circuit(acc, circ, m, dict(case, form=form))
    if len(program) >= 2 and any(l[0] not in ("1",) for l in program):
        acc.nontriv(program)


def shards(tier):
    L = 3 if tier == "quick" else 4
    al = alphabet()
    out = [{"kind": "prog", "first": None, "L": 1}]
    for i in range(len(al)):
        if L >= 4:
            for j in range(len(al)):
                out.append({"kind": "prog", "first": [i, j], "L": L})
            out.append({"kind": "prog", "first": [i], "L": 2})
        else:
            out.append({"kind": "prog", "first": [i], "L": L})
    for i in range(len(al)):
        out.append({"kind": "edited", "first": i})
    # letters outside the core alphabet (CZ on two emitters / emitter-photon, plain measurements, classically controlled Z): every program of
    # <= 2 (3 thorough) letters that contains at least one of them
    for i in range(len(EXTRA)):
        out.append({"kind": "extra", "first": i, "L": 2 if tier == "quick" else 3})
    nmax = 4 if tier == "quick" else 5
    for n in range(2, nmax + 1):
        graphs = [g for g in spaces.all_graphs(n) if not spaces.has_isolated(n, g)]
        for a in range(0, len(graphs), 16):
            out.append({"kind": "solver", "n": n, "graphs": [[list(e) for e in g] for g in graphs[a:a + 16]]})
    return out


def edit_events(m):
    """edits of an existing circuit (positions refer to wires of the model)."""
    evs = [("rmid",), ("unwrap",)]
    for i in sorted(m.ops):
        l = m.ops[i]
        t, r = qregs(l)[0]
        idx = m.wires[(t, r)].index(i)
        evs.append(("remove", t, r, idx))
        if l[0] == "1":
            for nm_ in ("X", "H", "I"):
                if nm_ != l[1]:
                    evs.append(("replace", t, r, idx, ["1", nm_, l[2], l[3]]))
            evs.append(("replace", t, r, idx, ["W", ["H", "P"], l[2], l[3]]))
        elif l[0] == "W":
            evs.append(("replace", t, r, idx, ["1", "H", l[2], l[3]]))
    for l in (["1", "X", "e", 0], ["1", "I", "p", 0], ["CNOT", "e", 0, "e", 1]):
        qs = qregs(l)
        if len(qs) == 1:
            for idx in range(len(m.wires[qs[0]]) + 1):
                evs.append(("insert", l, [[qs[0][0], qs[0][1], idx]]))
    return evs


def check_edited(acc, layout, program):
    """metrics are queried, the circuit is edited in place, metrics are queried again (stale indexes / caches)."""
    import graphiq.metrics as gm
    from . import c12
    m0 = model_of(layout, program)
    for ev in edit_events(m0):
        circ = gq.build_circuit(layout, program)
        m = model_of(layout, program)
        try:
            for name in METRICS:
                getattr(gm, name)().evaluate(None, circ)
            circ.register_depth
            circ.depth
        except Exception:
            pass
        try:
            c12.apply_event_real(circ, ev)
        except Exception as e:
            acc.refusal("edit raised " + type(e).__name__)
            continue
        c12.apply_event_model(m, ev)
        check_circuit(acc, circ, m, {"layout": list(layout), "program": program, "queried_then_edited": [list(x) if isinstance(x, (list, tuple)) else x for x in ev]})
        acc.nontriv(("edited", repr(program), repr(ev)))


def run_shard(shard, tier, acc):
    al = alphabet()
    if shard["kind"] == "edited":
        f = al[shard["first"]]
        for p in [[f]] + [[f, l] for l in al]:
            check_edited(acc, LAYOUT, p)
        acc.sample({"layout": list(LAYOUT), "program": [f], "then": "every single edit, metrics queried before and after"})
        return
    if shard["kind"] == "prog":
        if shard["first"] is None:
            progs = [[]] + [[l] for l in al]
        else:
            pre = [al[i] for i in shard["first"]]
            progs = [pre + list(t) for n in range(0 if len(pre) > 1 else 1, shard["L"] - len(pre) + 1) for t in itertools.product(al, repeat=n)]
            if len(pre) == 1 and shard["L"] == 2:
                progs = [pre + [l] for l in al]
        for p in progs:
            check_program(acc, LAYOUT, p)
        acc.sample({"layout": list(LAYOUT), "program": progs[-1]})
    elif shard["kind"] == "extra":
        full = al + EXTRA
        progs = []
        for n in range(1, shard["L"] + 1):
            for t in itertools.product(full, repeat=n):
                ex = [l for l in t if l in EXTRA]
                if ex and ex[0] == EXTRA[shard["first"]]:
                    progs.append(list(t))
        for p in progs:
            check_program(acc, LAYOUT, p)
        acc.sample({"layout": list(LAYOUT), "program": progs[-1]})
    else:
        for edges in shard["graphs"]:
            try:
                score, circ, solver = su.run_trs(shard["n"], [tuple(e) for e in edges])
            except Exception as e:
                acc.refusal("solver raised")
                continue
            layout = (circ.n_emitters, circ.n_photons, circ.n_classical)
            prog = gq.circuit_letters(circ)
            # the solver builds its circuit with insert_at as well; rebuild by add from a linearisation that keeps every wire order
            check_solver_circuit(acc, circ, layout, {"n": shard["n"], "edges": edges})
        acc.sample({"solver_graph": edges})


def check_solver_circuit(acc, circ, layout, case):
    """model built from the real circuit's per-wire operation lists (read through reg_gate_history-independent walking)."""
    from .c12 import wire_edges
    m = DagModel(*layout)
    ids = {}
    for t in "epc":
        for r in range(m.count[t]):
            key = "%s%d" % (t, r)
            node = key + "_in"
            while True:
                nxt = [e for e in circ.dag.out_edges(node, keys=True) if e[2] == key]
                if not nxt or nxt[0][1] == key + "_out":
                    break
                node = nxt[0][1]
                if node not in ids:
                    ids[node] = m.next_id
                    m.ops[m.next_id] = gq.op_to_letter(circ.dag.nodes[node]["op"])
                    m.next_id += 1
                m.wires[(t, r)].append(ids[node])
    check_circuit(acc, circ, m, dict(case, form="solver"))
    acc.nontriv(("solver", repr(case)))


def replay_case(case, acc):
    if "queried_then_edited" in case:
        check_edited(acc, tuple(case["layout"]), case["program"])
    elif "program" in case:
        check_program(acc, tuple(case["layout"]), case["program"])
    else:
        score, circ, solver = su.run_trs(case["n"], [tuple(e) for e in case["edges"]])
        check_solver_circuit(acc, circ, (circ.n_emitters, circ.n_photons, circ.n_classical), case)


PREDICATES = {}
