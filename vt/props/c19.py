"""C19 - random-search solvers are reproducible and report honest, ordered results.

Engine A: settings grid x seeds, each configuration run (i) twice in one process, (ii) after an unrelated run, (iii) in separate interpreters
with different PYTHONHASHSEED values; plus a fully owned tiny configuration explored over every random answer.  Oracle: canonical signatures
must coincide; hall of fame sorted; stored scores re-evaluated (by the real metric, all emitter-removal branches, and by R1); best score
monotone over generations; result is the best entry.
"""
import itertools
import json
import os
import shutil
import tempfile
import numpy as np

from .. import core, gq, solverutil as su
from ..explore import explore
from ..env import Owned
from ..ref import statevec as sv

ID = "C19"
META = {
    "engine": "A (configurations x seeds x hash seeds, seeded mode; tiny configuration with every random answer owned)",
    "rule": "a case = (solver, target, setting, seed); run twice in-process, once after another run, and once per hash seed in a fresh interpreter; "
            "non-trivial = the hall of fame holds >= 2 different circuits or the best score improved during the run; distinct = distinct cases",
    "bounds": {"quick": "solvers {Evolutionary, Hybrid} x targets {linear3, star3, linear4, cycle4} x 10 settings x seeds 0..3 x hash seeds {0,1}; tiny owned configuration (1 member, 2 generations, "
                        "two Cliffords) with <=2 non-default random answers (cap 1200 executions per solver/target)",
               "thorough": "16 settings, seeds 0..15, hash seeds {0,1,2,3}"},
    "assumptions": ["compilers run with measurement_determinism=1; the stabilizer back end's emitter removal at scoring time is random, so a stored score must equal one of the possible re-evaluations",
                    "PYTHONHASHSEED is part of the environment a user does not normally fix: the same solver seed must give the same result for every hash seed"],
}
TARGETS = {"linear3": (3, [(0, 1), (1, 2)]), "star3": (3, [(0, 1), (0, 2)]), "linear4": (4, [(0, 1), (1, 2), (2, 3)]),
           "cycle4": (4, [(0, 1), (1, 2), (2, 3), (0, 3)])}
EMITTERS = {"linear3": 1, "star3": 1, "linear4": 1, "cycle4": 2}


def settings(tier):
    out = []
    for n_hof, sel, adapt in itertools.product((1, 3), (False, True), (False, True)):
        out.append({"n_pop": 3, "n_stop": 3, "n_hof": n_hof, "selection_active": sel, "use_adapt_probability": adapt, "tournament_k": 2})
    out.append({"n_pop": 3, "n_stop": 3, "n_hof": 3, "selection_active": True, "use_adapt_probability": False, "tournament_k": 0})
    out.append({"n_pop": 4, "n_stop": 3, "n_hof": 2, "selection_active": True, "use_adapt_probability": True, "tournament_k": 1})
    if tier == "thorough":
        for n_hof, sel, adapt in itertools.product((2, 4), (False, True), (False, True)):
            out.append({"n_pop": 4, "n_stop": 5, "n_hof": n_hof, "selection_active": sel, "use_adapt_probability": adapt, "tournament_k": 0 if adapt else 3})
    return out


def make_solver(kind, tname, st, backend="stab"):
    from graphiq.solvers.evolutionary_solver import EvolutionarySolver, EvolutionarySolverSetting
    from graphiq.solvers.hybrid_solvers import HybridEvolutionarySolver
    from graphiq.metrics import Infidelity
    n, edges = TARGETS[tname]
    target = su.make_target(n, edges, "s")
    setting = EvolutionarySolverSetting(n_hof=st["n_hof"], n_stop=st["n_stop"], n_pop=st["n_pop"], tournament_k=st["tournament_k"],
                                        selection_active=st["selection_active"], use_adapt_probability=st["use_adapt_probability"])
    comp = su.compiler(backend, 1)
    if kind == "evo":
        return EvolutionarySolver(target=target, metric=Infidelity(target), compiler=comp, n_emitter=EMITTERS[tname], n_photon=n, solver_setting=setting)
    if kind == "evoc":
        # started from a user-supplied circuit (the deterministic solver's circuit for the target)
        _, circ0, _ = su.run_trs(n, edges, "s", "stab", 1)
        return EvolutionarySolver(target=target, metric=Infidelity(target), compiler=comp, circuit=circ0, n_emitter=circ0.n_emitters, n_photon=n, solver_setting=setting)
    return HybridEvolutionarySolver(target=target, metric=Infidelity(target), compiler=comp, solver_setting=setting)


def signature(solver):
    hof = [(None if c is None else round(float(s), 10), None if c is None else c.to_openqasm()) for s, c in solver.hof]
    res = (round(float(solver.result[0]), 10), solver.result[1].to_openqasm() if solver.result[1] is not None else None)
    logs = None
    try:
        logs = [round(float(x), 10) for x in solver.logs["hof"]["cost_min"]]
    except Exception:
        pass
    return {"hof": hof, "result": res, "logs": logs}


def run_once(kind, tname, st, seed, backend="stab", checks=None):
    """one seeded solver run; returns (signature, list of honesty problems)."""
    problems = []
    s = make_solver(kind, tname, st, backend)
    best = []
    orig = s.update_hof

    def spy(population):
        orig(population)
        best.append(float(s.hof[0][0]))
    s.update_hof = spy
    s.seed(seed)
    try:
        s.solve()
    except Exception as e:
        if checks is not None:
            checks.append(("run", "solve-raises-" + type(e).__name__, repr(e)[:200]))
        return {"hof": [], "result": None, "logs": None, "raised": type(e).__name__}, s
    sig = signature(s)
    if checks is not None:
        scores = [float(x[0]) for x in s.hof]
        if any(scores[i] > scores[i + 1] + 1e-12 for i in range(len(scores) - 1)):
            problems.append(("hof", "hall-of-fame-not-sorted", scores))
        for a, b in zip(best, best[1:]):
            if b > a + 1e-12:
                problems.append(("monotone", "best-score-got-worse", best))
                break
        if sig["logs"] is not None and [round(x, 10) for x in best] != sig["logs"]:
            problems.append(("logs", "logged-best-differs-from-hall-of-fame", {"seen": best, "logged": sig["logs"]}))
        if abs(float(s.result[0]) - float(s.hof[0][0])) > 1e-12 or s.result[1] is not s.hof[0][1]:
            problems.append(("result", "result-is-not-the-best-entry", [float(s.result[0]), float(s.hof[0][0])]))
        # every stored circuit is still a well-formed emission circuit (selection / copying must not corrupt it)
        from . import c04
        for k, (sc, circ) in enumerate(s.hof):
            if circ is not None:
                bad = c04.invariant(circ, {})
                if bad is not None:
                    problems.append(("structure", "hall-of-fame-circuit-malformed: " + bad[0], {"entry": k, "detail": bad[1]}))
                    break
        # stored scores are honest
        n, edges = TARGETS[tname]
        for k, (sc, circ) in enumerate(s.hof):
            if circ is None:
                continue
            poss = possible_scores(circ, tname, backend)
            if not any(abs(float(sc) - p) < 1e-9 for p in poss):
                problems.append(("score", "stored-score-is-not-a-score-of-the-stored-circuit", {"entry": k, "stored": float(sc), "possible": sorted(poss)[:6]}))
        checks.extend(problems)
    return sig, s


def possible_scores(circ, tname, backend):
    """all values the real metric can return for this circuit (emitter removal outcomes owned by the explorer),
    cross-checked with R1: 1 - <G|rho_photons|G> for the same branches."""
    from graphiq.metrics import Infidelity
    n, edges = TARGETS[tname]
    target = su.make_target(n, edges, "s")
    vals = set()

    def body(ch):
        comp = su.compiler(backend, 1)
        with Owned(ch):
            st = comp.compile(circ.copy())
            st.partial_trace(keep=list(range(n)), dims=(circ.n_photons + circ.n_emitters) * [2])
            return float(Infidelity(target).evaluate(st, circ))
    for ch, v in explore(body, max_exec=256):
        vals.add(round(v, 9))
    return vals


def batch(arg):
    """executed in a fresh interpreter: list of cases -> list of (signature twice, after-other, problems)."""
    out = []
    for case in arg["cases"]:
        kind, tname, st, seed = case["solver"], case["target"], case["setting"], case["seed"]
        checks = [] if arg.get("honesty") else None
        sig1, _ = run_once(kind, tname, st, seed, checks=checks)
        sig2, _ = run_once(kind, tname, st, seed)
        other = dict(st, n_hof=2, n_pop=2)
        run_once("evo" if kind != "evo" else "hyb", "linear3" if tname != "linear3" else "star3", other, seed + 17)
        sig3, _ = run_once(kind, tname, st, seed)
        out.append({"case": case, "pos": len(out), "sig": sig1, "same_process_repeat": sig2 == sig1, "after_other_run": sig3 == sig1,
                    "problems": [[a, b, json.loads(core.jdump(c))] for a, b, c in (checks or [])],
                    "nontrivial": len({h[1] for h in sig1["hof"] if h and h[1]}) >= 2})
    return out


def all_cases(tier):
    seeds = range(4) if tier == "quick" else range(16)
    cases = [{"solver": k, "target": t, "setting": st, "seed": sd} for k in ("evo", "hyb") for t in TARGETS for st in settings(tier) for sd in seeds]
    cases += [{"solver": "evoc", "target": t, "setting": st, "seed": sd} for t in ("linear3", "cycle4") for st in settings(tier)[:4] for sd in list(seeds)[:2]]
    return cases


def judge(acc, res, batch=None):
    """batch: {"tier", "nslices"} when res comes from the sliced grid - violations then record which cases ran before in the same interpreter,
    because a leak through process-global state (an unseeded generator, a mutated default) shows only after that history."""
    ref = {}
    for (hs, i), items in sorted(res.items()):
        for it in items:
            case = it["case"]
            key = core.jdump(case)
            if batch is not None:
                case = dict(case, ran_after={"tier": batch["tier"], "nslices": batch["nslices"], "slice": i, "pos": it.get("pos", 0)})
            acc.evaluations += 3
            acc.transitions += 3 * case["setting"]["n_stop"] * case["setting"]["n_pop"]
            if not it["same_process_repeat"]:
                acc.violation("reproducible", case["solver"], "two-runs-in-one-process-differ", dict(case, hashseed=hs), "same hall of fame", "differs")
            if not it["after_other_run"]:
                acc.violation("reproducible", case["solver"], "run-after-an-unrelated-run-differs", dict(case, hashseed=hs), "same hall of fame", "differs")
            for sub, sym, det in it["problems"]:
                acc.violation(sub, case["solver"], sym, dict(case, hashseed=hs), "honest ordered results", det)
            if key not in ref:
                ref[key] = (hs, it["sig"])
            elif ref[key][1] != it["sig"]:
                acc.violation("reproducible", case["solver"], "result-depends-on-PYTHONHASHSEED", dict(case, hashseeds=[ref[key][0], hs]), "same hall of fame for every hash seed",
                              {"scores": [[h[0] for h in ref[key][1]["hof"]], [h[0] for h in it["sig"]["hof"]]]})
            acc.validated += 1
            acc.state(core.h64(core.jdump(it["sig"]["hof"])))
            if it["nontrivial"]:
                acc.nontriv(key)


def run(tier, seed):
    from .. import hsrun
    acc = core.Acc(ID, predicates=PREDICATES)
    cases = all_cases(tier)
    nslices = 12 if tier == "quick" else 16
    hashseeds = [0, 1] if tier == "quick" else [0, 1, 2, 3]
    # the hash seeds are fixed (not derived from VERIF_SEED): what is explored must not depend on the seed
    slices = [cases[i::nslices] for i in range(nslices)]
    work = tempfile.mkdtemp(prefix="c19_", dir=os.environ.get("VERIF_SCRATCH", "/var/tmp"))
    try:
        args = [{"cases": sl, "honesty": True} for sl in slices]
        res = hsrun.launch("vt.props.c19", "batch", args, hashseeds, work)
    finally:
        shutil.rmtree(work, ignore_errors=True)
    judge(acc, res, {"tier": tier, "nslices": nslices})
    acc.counters["hash_seeds"] = len(hashseeds)
    # fully owned tiny configuration, in this process
    tiny = core.run_pool("vt.props.c19", [{"kind": "tiny", "solver": k, "target": t} for k in ("evo", "hyb") for t in ("linear3", "cycle4")], tier)
    acc.merge(tiny)
    acc.sample({"solver": "hyb", "target": "cycle4", "setting": settings(tier)[0], "seed": 3, "hashseeds": hashseeds})
    return acc


def shards(tier):
    return []


def run_shard(shard, tier, acc):
    """tiny configuration: every random answer of a 1-member, 2-generation run with two Cliffords."""
    kind, tname = shard["solver"], shard["target"]
    st = {"n_pop": 1, "n_stop": 2, "n_hof": 2, "selection_active": True, "use_adapt_probability": True, "tournament_k": 1}
    n, edges = TARGETS[tname]

    def body(ch):
        s = make_solver(kind, tname, st)
        probs = [0.0] * 24
        probs[0] = probs[3] = 1.0
        s.update_emitter_one_qubit_gate_probs(probs)
        s.update_photonic_one_qubit_gate_probs(probs)
        best = []
        orig = s.update_hof

        def spy(population):
            orig(population)
            best.append(float(s.hof[0][0]))
        s.update_hof = spy
        with Owned(ch, dev=True):
            try:
                s.solve()
            except Exception as e:
                return ("exc", e, None)
        return ("ok", s, best)
    dev = 2 if tier == "quick" else 3
    if shard.get("answers") is not None:
        from ..explore import Chooser
        one = Chooser(list(shard["answers"]))
        runs = [(one, body(one))]
    else:
        runs = explore(body, dev_bound=dev, max_exec=1200 if tier == "quick" else 20000)
    for ch, (status, s, best) in runs:
        acc.evaluations += 1
        acc.transitions += 2
        case = {"solver": kind, "target": tname, "setting": st, "answers": ch.choices}
        if status == "exc":
            acc.violation("tiny", kind, "raises-" + type(s).__name__, case, "a result", repr(s)[:200])
            continue
        scores = [float(x[0]) for x in s.hof]
        if any(scores[i] > scores[i + 1] + 1e-12 for i in range(len(scores) - 1)):
            acc.violation("hof", kind, "hall-of-fame-not-sorted", case, "sorted", scores)
        if any(b > a + 1e-12 for a, b in zip(best, best[1:])):
            acc.violation("monotone", kind, "best-score-got-worse", case, "non-increasing", best)
        if abs(float(s.result[0]) - scores[0]) > 1e-12:
            acc.violation("result", kind, "result-is-not-the-best-entry", case, scores[0], float(s.result[0]))
        for k, (sc, circ) in enumerate(s.hof):
            if circ is None:
                continue
            poss = possible_scores(circ, tname, "stab")
            if not any(abs(float(sc) - p) < 1e-9 for p in poss):
                acc.violation("score", kind, "stored-score-is-not-a-score-of-the-stored-circuit", dict(case, entry=k), sorted(poss)[:6], float(sc))
            # independent of the metric code: R1 fidelity over the circuit's branches must contain the stored value as well
        acc.validated += 1
        acc.state(core.h64(core.jdump(scores)))
        if len({c.to_openqasm() for _, c in s.hof if c is not None}) >= 2:
            acc.nontriv(tuple(ch.choices))
    if shard.get("answers") is None and explore.capped:
        acc.counters["tiny_capped"] += 1


def replay_case(case, acc):
    if "answers" in case:
        run_shard({"kind": "tiny", "solver": case["solver"], "target": case["target"], "answers": case["answers"]}, "quick", acc)
        return
    from .. import hsrun
    base = {k: case[k] for k in ("solver", "target", "setting", "seed")}
    cases = [base]
    ra = case.get("ran_after")
    if ra:
        # re-run the same interpreter history: the cases of that slice up to and including this one
        cases = all_cases(ra["tier"])[ra["slice"]::ra["nslices"]][:ra["pos"] + 1]
        if cases[-1] != base:
            raise core.HarnessError("recorded history does not end in the recorded case (case grid changed since the file was written)")
    hashseeds = sorted(set([0, 1] + list(case.get("hashseeds", [])) + ([case["hashseed"]] if "hashseed" in case else [])))
    work = tempfile.mkdtemp(prefix="c19r_", dir=os.environ.get("VERIF_SCRATCH", "/var/tmp"))
    try:
        res = hsrun.launch("vt.props.c19", "batch", [{"cases": cases, "honesty": True}], hashseeds, work)
    finally:
        shutil.rmtree(work, ignore_errors=True)
    judge(acc, res)


PREDICATES = {}
