"""R6 - a circuit as one ordered list of operation ids per register plus an operation table.  No graphiq import.

Letters are the JSON-able lists of vt/gq.py.  Quantum wires are keyed ("e"|"p", i); classical wires ("c", i).
`add` threads every register the letter names (quantum and classical); `insert` threads the quantum wires only
(graphiq's insert_at takes quantum edges only).
"""
import itertools


def qregs(letter):
    k = letter[0]
    if k in ("1", "W"):
        return [(letter[2], letter[3])]
    if k == "MZ":
        return [(letter[1], letter[2])]
    return [(letter[1], letter[2]), (letter[3], letter[4])]


def cregs(letter):
    k = letter[0]
    if k in ("CCNOT", "CCZ", "MCR"):
        return [("c", letter[5])]
    if k == "MZ":
        return [("c", letter[3])]
    return []


class DagModel:
    def __init__(self, ne=0, npn=0, nc=0):
        self.count = {"e": ne, "p": npn, "c": nc}
        self.wires = {}
        for t in "epc":
            for i in range(self.count[t]):
                self.wires[(t, i)] = []
        self.ops = {}
        self.next_id = 1

    def copy(self):
        m = DagModel()
        m.count = dict(self.count)
        m.wires = {k: list(v) for k, v in self.wires.items()}
        m.ops = dict(self.ops)
        m.next_id = self.next_id
        return m

    # ---- register handling -------------------------------------------------------------
    def ensure(self, reg):
        t, i = reg
        if i == self.count[t]:
            self.wires[(t, i)] = []
            self.count[t] += 1
        elif i > self.count[t]:
            raise ValueError("register numbering must be continuous")

    def can_ensure(self, letter):
        need = {}
        for t, i in sorted(set(qregs(letter) + cregs(letter))):
            have = self.count[t] + need.get(t, 0)
            if i > have:
                return False
            if i == have:
                need[t] = need.get(t, 0) + 1
        return True

    def add_register(self, t):
        self.ensure((t, self.count[t]))

    # ---- edits -------------------------------------------------------------------------
    def add(self, letter):
        for r in cregs(letter):
            self.ensure(r)
        for r in sorted(qregs(letter), key=lambda x: (x[1], x[0])):
            self.ensure(r)
        i = self.next_id
        self.next_id += 1
        self.ops[i] = letter
        for r in qregs(letter) + cregs(letter):
            self.wires[r].append(i)
        return i

    def insert(self, letter, positions):
        """positions: {quantum reg: index in that wire before which the op goes}"""
        for r in cregs(letter):
            self.ensure(r)
        i = self.next_id
        self.next_id += 1
        self.ops[i] = letter
        for r in qregs(letter):
            self.wires[r].insert(positions[r], i)
        return i

    def remove(self, i):
        for w in self.wires.values():
            if i in w:
                w.remove(i)
        del self.ops[i]

    def replace(self, i, letter):
        self.ops[i] = letter

    def unwrap(self):
        for i in [k for k in sorted(self.ops) if self.ops[k][0] == "W"]:
            l = self.ops[i]
            reg = (l[2], l[3])
            pos = self.wires[reg].index(i)
            new = []
            for nm in reversed(l[1]):
                j = self.next_id
                self.next_id += 1
                self.ops[j] = ["1", nm, l[2], l[3]]
                new.append(j)
            self.wires[reg][pos:pos + 1] = new
            del self.ops[i]

    def remove_identity(self):
        for i in [k for k in sorted(self.ops) if self.ops[k][0] == "1" and self.ops[k][1] == "I"]:
            self.remove(i)

    def group(self):
        """maximal runs of one-qubit gates / wrappers on each quantum wire become one wrapper whose list is the matrix
        product of the run (last applied first)."""
        for reg in [r for r in self.wires if r[0] != "c"]:
            w = self.wires[reg]
            out = []
            run = []

            def flush():
                if run:
                    names = []
                    for k in reversed(run):
                        l = self.ops[k]
                        names += list(l[1]) if l[0] == "W" else [l[1]]
                        del self.ops[k]
                    j = self.next_id
                    self.next_id += 1
                    self.ops[j] = ["W", names, reg[0], reg[1]]
                    out.append(j)
                    run.clear()
            for k in w:
                if self.ops[k][0] in ("1", "W"):
                    run.append(k)
                else:
                    flush()
                    out.append(k)
            flush()
            self.wires[reg] = out

    # ---- derived -----------------------------------------------------------------------
    def wire_letters(self, reg):
        return [self.ops[i] for i in self.wires[reg]]

    def quantum_regs(self):
        return [r for r in sorted(self.wires) if r[0] != "c"]

    def edges(self, include_classical=True):
        """precedence pairs between consecutive ops on a wire."""
        e = set()
        for r, w in self.wires.items():
            if r[0] == "c" and not include_classical:
                continue
            for a, b in zip(w, w[1:]):
                e.add((a, b))
        return e

    def is_acyclic(self):
        succ = {}
        indeg = {i: 0 for i in self.ops}
        for a, b in self.edges():
            succ.setdefault(a, set()).add(b)
        for a in succ:
            for b in succ[a]:
                indeg[b] += 1
        st = [i for i, d in indeg.items() if d == 0]
        n = 0
        while st:
            a = st.pop()
            n += 1
            for b in succ.get(a, ()):
                indeg[b] -= 1
                if indeg[b] == 0:
                    st.append(b)
        return n == len(self.ops)

    def depth(self):
        """number of operations on the longest chain (0 for an empty circuit)."""
        succ = {}
        for a, b in self.edges():
            succ.setdefault(a, set()).add(b)
        memo = {}

        def d(i):
            if i not in memo:
                memo[i] = 1 + max([d(j) for j in succ.get(i, ())], default=0)
            return memo[i]
        return max([d(i) for i in self.ops], default=0)

    def depth_upto(self):
        """dict op id -> length of the longest chain ending at that op (>=1)."""
        pred = {}
        for a, b in self.edges():
            pred.setdefault(b, set()).add(a)
        memo = {}

        def d(i):
            if i not in memo:
                memo[i] = 1 + max([d(j) for j in pred.get(i, ())], default=0)
            return memo[i]
        return {i: d(i) for i in self.ops}

    def canon(self):
        """canonical hashable form: per wire (in register order) the letters with ops numbered by first appearance."""
        num = {}
        out = []
        for r in sorted(self.wires):
            row = []
            for i in self.wires[r]:
                if i not in num:
                    num[i] = len(num)
                row.append((num[i], repr(self.ops[i])))
            out.append((r, tuple(row)))
        return tuple(out)

    def linear_order(self):
        """some topological order of op ids (deterministic)."""
        pred = {i: set() for i in self.ops}
        for a, b in self.edges():
            pred[b].add(a)
        out = []
        done = set()
        while len(out) < len(self.ops):
            for i in sorted(self.ops):
                if i not in done and pred[i] <= done:
                    out.append(i)
                    done.add(i)
                    break
            else:
                raise ValueError("cycle")
        return out
