"""R3 - GF(2) linear algebra on Python ints (rows are bit masks).  No floating point, no graphiq."""


def rank(rows):
    rows = list(rows)
    r = 0
    basis = []
    for v in rows:
        for b in basis:
            v = min(v, v ^ b)
        if v:
            basis.append(v)
            basis.sort(reverse=True)
    return len(basis)


def rank_matrix(m):
    """m: iterable of iterables of 0/1"""
    rows = []
    for row in m:
        v = 0
        for j, b in enumerate(row):
            if int(b) & 1:
                v |= 1 << j
        rows.append(v)
    return rank(rows)


def cut_rank(n, edges, side_a):
    """GF(2) rank of the adjacency block between side_a and its complement."""
    a = set(side_a)
    b = [v for v in range(n) if v not in a]
    idx = {v: i for i, v in enumerate(b)}
    rows = {v: 0 for v in a}
    for u, w in edges:
        if u in a and w not in a:
            rows[u] |= 1 << idx[w]
        elif w in a and u not in a:
            rows[w] |= 1 << idx[u]
    return rank(rows.values())
