"""R5 - graphs as frozensets of edges (pairs a<b) on vertices 0..n-1: local complementation, LC orbits,
isomorphism by brute force.  No graphiq import."""
import itertools


def norm(edges):
    return frozenset((min(a, b), max(a, b)) for a, b in edges)


def neighbours(edges, v):
    out = set()
    for a, b in edges:
        if a == v:
            out.add(b)
        elif b == v:
            out.add(a)
    return out


def local_complement(edges, v):
    nb = sorted(neighbours(edges, v))
    e = set(edges)
    for a, b in itertools.combinations(nb, 2):
        e ^= {(a, b)}
    return frozenset(e)


def lc_orbit(n, edges):
    start = norm(edges)
    seen = {start}
    frontier = [start]
    while frontier:
        nxt = []
        for g in frontier:
            for v in range(n):
                h = local_complement(g, v)
                if h not in seen:
                    seen.add(h)
                    nxt.append(h)
        frontier = nxt
    return seen


_PART = {}


def orbit_partition(n):
    """dict graph -> orbit id ; list of orbits.  Explicit-state search over all labelled graphs."""
    if n in _PART:
        return _PART[n]
    from .spaces import all_graphs
    ids = {}
    orbits = []
    trans = 0
    for g in all_graphs(n):
        g = frozenset(g)
        if g in ids:
            continue
        orb = lc_orbit(n, g)
        for h in orb:
            ids[h] = len(orbits)
        orbits.append(sorted(orb, key=sorted))
    _PART[n] = (ids, orbits)
    return _PART[n]


def relabel(edges, perm):
    """perm[v] = new name of v"""
    return norm((perm[a], perm[b]) for a, b in edges)


def isomorphic(n, e1, e2):
    e1, e2 = norm(e1), norm(e2)
    if len(e1) != len(e2):
        return False
    d1 = sorted(len(neighbours(e1, v)) for v in range(n))
    d2 = sorted(len(neighbours(e2, v)) for v in range(n))
    if d1 != d2:
        return False
    for perm in itertools.permutations(range(n)):
        if relabel(e1, perm) == e2:
            return True
    return False


def adjacency(n, edges):
    a = [[0] * n for _ in range(n)]
    for u, v in edges:
        a[u][v] = a[v][u] = 1
    return a


def from_adjacency(a):
    n = len(a)
    return frozenset((i, j) for i in range(n) for j in range(i + 1, n) if int(round(float(a[i][j]))) % 2 == 1 or (a[i][j] != 0 and int(round(float(a[i][j]))) == 0))


def edges_of_nx(g, order=None):
    nodes = list(g.nodes()) if order is None else order
    idx = {v: i for i, v in enumerate(nodes)}
    return norm((idx[a], idx[b]) for a, b in g.edges() if a != b)
