"""R2 - signed Pauli strings and stabilizer groups, exact integer arithmetic.  No graphiq import.

A Pauli operator on n qubits is (x, z, ph): ph in Z_4, x and z Python ints used as bit sets (bit q = qubit q),
denoting  i**ph * prod_q X_q**x_q Z_q**z_q   (per qubit: X then Z, so Y = i*X*Z has x=z=1, ph=1).
"""
import itertools
import numpy as np
from . import statevec as sv


def popcount(a):
    return bin(a).count("1")


def mul(a, b):
    x1, z1, p1 = a
    x2, z2, p2 = b
    return (x1 ^ x2, z1 ^ z2, (p1 + p2 + 2 * popcount(z1 & x2)) & 3)


def commute(a, b):
    return (popcount(a[0] & b[1]) + popcount(a[1] & b[0])) % 2 == 0


def is_hermitian(a):
    return (a[2] - popcount(a[0] & a[1])) % 2 == 0


def sign_of(a):
    """+1/-1 for a Hermitian Pauli: a = sign * (tensor product of I,X,Y,Z)."""
    d = (a[2] - popcount(a[0] & a[1])) & 3
    assert d in (0, 2), "not Hermitian"
    return 1 if d == 0 else -1


def from_string(s, sign=1):
    """'XIZY' (qubit 0 first), sign +1/-1."""
    x = z = 0
    ny = 0
    for q, c in enumerate(s):
        if c in "XY":
            x |= 1 << q
        if c in "ZY":
            z |= 1 << q
        if c == "Y":
            ny += 1
    return (x, z, (ny + (0 if sign == 1 else 2)) & 3)


def to_string(a, n):
    s = ""
    for q in range(n):
        xb, zb = (a[0] >> q) & 1, (a[1] >> q) & 1
        s += "IXZY"[xb + 2 * zb]
    return ("+" if sign_of(a) == 1 else "-") + s


def matrix(a, n):
    m = np.array([[1]], dtype=complex)
    for q in range(n):
        xb, zb = (a[0] >> q) & 1, (a[1] >> q) & 1
        loc = np.eye(2, dtype=complex)
        if xb:
            loc = loc @ sv.X
        if zb:
            loc = loc @ sv.Z
        m = np.kron(m, loc)
    return (1j ** a[2]) * m


_SIGN_CACHE = {}


def _rev(mask, n):
    r = 0
    for q in range(n):
        if (mask >> q) & 1:
            r |= 1 << (n - 1 - q)
    return r


def apply_pauli(a, n, f):
    """a|f> for a flat vector f (qubit 0 = most significant index bit), without building the matrix."""
    x, z, ph = a
    key = (n, z)
    if key not in _SIGN_CACHE:
        idx = np.arange(1 << n)
        zm = _rev(z, n)
        par = np.zeros(1 << n, dtype=int)
        m = idx & zm
        while np.any(m):
            par ^= m & 1
            m >>= 1
        _SIGN_CACHE[key] = 1 - 2 * par
    sg = _SIGN_CACHE[key]
    out = np.empty_like(f)
    idx = np.arange(1 << n)
    out[idx ^ _rev(x, n)] = (1j ** ph) * sg * f
    return out


# ---- local Clifford conjugation tables ----------------------------------------------
# images of local generators, as local Paulis (bits over the gate's own qubits 0..k-1)
_X0, _Z0 = (1, 0, 0), (0, 1, 0)
_X1, _Z1 = (2, 0, 0), (0, 2, 0)


def _neg(a):
    return (a[0], a[1], (a[2] + 2) & 3)


_Y0 = (1, 1, 1)
GEN_IMG = {
    "I": {"X": [_X0], "Z": [_Z0]},
    "H": {"X": [_Z0], "Z": [_X0]},
    "P": {"X": [_Y0], "Z": [_Z0]},
    "P_dag": {"X": [_neg(_Y0)], "Z": [_Z0]},
    "X": {"X": [_X0], "Z": [_neg(_Z0)]},
    "Y": {"X": [_neg(_X0)], "Z": [_neg(_Z0)]},
    "Z": {"X": [_neg(_X0)], "Z": [_Z0]},
    # two-qubit: local qubit 0 = control, 1 = target
    "CNOT": {"X": [mul(_X0, _X1), _X1], "Z": [_Z0, mul(_Z0, _Z1)]},
    "CZ": {"X": [mul(_X0, _Z1), mul(_Z0, _X1)], "Z": [_Z0, _Z1]},
}
ARITY = {g: len(v["X"]) for g, v in GEN_IMG.items()}


def _local_table(gate):
    k = ARITY[gate]
    img = GEN_IMG[gate]
    tab = {}
    for x in range(1 << k):
        for z in range(1 << k):
            r = (0, 0, 0)
            for q in range(k):
                if (x >> q) & 1:
                    r = mul(r, img["X"][q])
            for q in range(k):
                if (z >> q) & 1:
                    r = mul(r, img["Z"][q])
            # the local input X^x Z^z is written as prod_q X_q^x_q then prod_q Z_q^z_q, same as our convention
            tab[(x, z)] = r
    return tab


TABLES = {g: _local_table(g) for g in GEN_IMG}


def conj(a, gate, qubits):
    """U a U^dagger for the named gate acting on `qubits` (tuple of global indices)."""
    tab = TABLES[gate]
    x, z, ph = a
    lx = lz = 0
    for i, q in enumerate(qubits):
        lx |= ((x >> q) & 1) << i
        lz |= ((z >> q) & 1) << i
    rx, rz, rp = tab[(lx, lz)]
    # a = i^ph * (rest) * local, rest commutes through (disjoint support; convention X..Z.. per qubit, and
    # the global X-then-Z ordering introduces sign 2*popcount(z_rest & x_local) both before and after only if
    # x_local is unchanged -- so do it explicitly by multiplication):
    mask = 0
    for q in qubits:
        mask |= 1 << q
    rest = (x & ~mask, z & ~mask, 0)
    gx = gz = 0
    for i, q in enumerate(qubits):
        gx |= ((rx >> i) & 1) << q
        gz |= ((rz >> i) & 1) << q
    # express the original as  i^ph' * rest * local_orig  to find ph'
    lo_gx = x & mask
    lo_gz = z & mask
    orig = mul(rest, (lo_gx, lo_gz, 0))
    dph = (ph - orig[2]) & 3
    # the local image phase rp is relative to local bit positions; popcount(z&x) terms inside tab are local and
    # position independent, so (gx, gz, rp) is the image of (lo_gx, lo_gz, 0).
    out = mul(rest, (gx, gz, rp))
    return (out[0], out[1], (out[2] + dph) & 3)


class StabGroup:
    """n commuting independent Hermitian generators on n qubits (a pure stabilizer state)."""

    def __init__(self, n, gens):
        self.n = n
        self.gens = list(gens)

    @classmethod
    def zero(cls, n):
        return cls(n, [(0, 1 << q, 0) for q in range(n)])

    @classmethod
    def from_strings(cls, strs):
        """['+XZ', '-ZX'] ..."""
        n = len(strs[0]) - 1
        return cls(n, [from_string(s[1:], 1 if s[0] == "+" else -1) for s in strs])

    def copy(self):
        return StabGroup(self.n, self.gens)

    def strings(self):
        return [to_string(g, self.n) for g in self.gens]

    def apply(self, gate, *qubits):
        self.gens = [conj(g, gate, qubits) for g in self.gens]
        return self

    # --- echelon / membership ---
    def _basis(self):
        n = self.n
        basis = {}
        for g in self.gens:
            g = self._reduce_with(g, basis)
            v = g[0] | (g[1] << n)
            if v:
                basis[v.bit_length() - 1] = g
        return basis

    def _reduce_with(self, g, basis):
        n = self.n
        while True:
            v = g[0] | (g[1] << n)
            if not v:
                return g
            hb = v.bit_length() - 1
            # find highest bit of v that has a basis element
            done = True
            while v:
                hb = v.bit_length() - 1
                if hb in basis:
                    g = mul(g, basis[hb])
                    done = False
                    break
                v &= ~(1 << hb)
            if done:
                return g

    def rank(self):
        return len(self._basis())

    def contains(self, p):
        """is Hermitian Pauli p (with its sign) in the group?"""
        r = self._reduce_with(p, self._basis())
        return r == (0, 0, 0)

    def contains_up_to_sign(self, p):
        r = self._reduce_with(p, self._basis())
        return r[0] == 0 and r[1] == 0

    def sign_in_group(self, p):
        """p = (x,z,ph) Hermitian; returns +1 if p in group, -1 if -p in group, 0 otherwise."""
        r = self._reduce_with(p, self._basis())
        if r[0] or r[1]:
            return 0
        return {0: 1, 2: -1}[r[2]]

    def is_valid(self):
        if len(self.gens) != self.n:
            return False
        for a, b in itertools.combinations(self.gens, 2):
            if not commute(a, b):
                return False
        if not all(is_hermitian(g) for g in self.gens):
            return False
        return self.rank() == self.n

    def same_state(self, other):
        if self.n != other.n:
            return False
        b = self._basis()
        return all(self._reduce_with(g, b) == (0, 0, 0) for g in other.gens)

    def same_up_to_signs(self, other):
        b = self._basis()
        return all((lambda r: r[0] == 0 and r[1] == 0)(self._reduce_with(g, b)) for g in other.gens)

    # --- measurement ---
    def z_outcomes(self, q):
        """set of possible Z-measurement outcomes on qubit q."""
        s = self.sign_in_group((0, 1 << q, 0))
        if s == 0:
            return {0, 1}
        return {0} if s == 1 else {1}

    def measure_z(self, q, outcome):
        """project on Z_q = (-1)^outcome (must be possible)."""
        assert outcome in self.z_outcomes(q)
        anti = [i for i, g in enumerate(self.gens) if (g[0] >> q) & 1]
        zq = (0, 1 << q, 2 * outcome)
        if anti:
            f = anti[0]
            gf = self.gens[f]
            for i in anti[1:]:
                self.gens[i] = mul(self.gens[i], gf)
            self.gens[f] = zq
        return self

    def reset_z(self, q, outcome):
        self.measure_z(q, outcome)
        if outcome == 1:
            self.apply("X", q)
        return self

    def pauli_outcomes(self, p):
        s = self.sign_in_group(p)
        if s == 0:
            return {0, 1}
        return {0} if s == 1 else {1}

    def measure_pauli(self, p, outcome):
        """project on Hermitian Pauli p = (-1)^outcome."""
        assert outcome in self.pauli_outcomes(p)
        anti = [i for i, g in enumerate(self.gens) if not commute(g, p)]
        pp = (p[0], p[1], (p[2] + 2 * outcome) & 3)
        if anti:
            f = anti[0]
            gf = self.gens[f]
            for i in anti[1:]:
                self.gens[i] = mul(self.gens[i], gf)
            self.gens[f] = pp
        return self

    # --- structure ---
    def insert_zero(self, pos):
        """insert a fresh |0> qubit at index pos."""
        def shift(a):
            lo = (1 << pos) - 1
            return ((a & lo) | ((a & ~lo) << 1))
        gens = [(shift(x), shift(z), ph) for x, z, ph in self.gens]
        gens.append((0, 1 << pos, 0))
        return StabGroup(self.n + 1, gens)

    def is_product_qubit(self, q):
        """is qubit q unentangled with the rest (some single-qubit Pauli on q, up to sign, in the group)?"""
        for p in ((1 << q, 0, 0), (0, 1 << q, 0), (1 << q, 1 << q, 1)):
            if self.sign_in_group(p) != 0:
                return True
        return False

    def remove_product_qubit(self, q):
        """state of the others when q is unentangled."""
        n = self.n
        local = None
        for p in ((1 << q, 0, 0), (0, 1 << q, 0), (1 << q, 1 << q, 1)):
            s = self.sign_in_group(p)
            if s != 0:
                local = (p[0], p[1], (p[2] + (0 if s == 1 else 2)) & 3)
        assert local is not None
        # echelon with qubit q's bits as highest priority: get generators with no support on q
        gens = list(self.gens)
        # eliminate x_q
        for bitsel in (0, 1):
            piv = None
            for i, g in enumerate(gens):
                if (g[bitsel] >> q) & 1 and (piv is None):
                    piv = i
            if piv is not None:
                gp = gens[piv]
                gens = [mul(g, gp) if (i != piv and (g[bitsel] >> q) & 1) else g for i, g in enumerate(gens)]
        # generators with support on q: should be exactly one class (local * something) -> drop those
        rest = [g for g in gens if not ((g[0] >> q) & 1 or (g[1] >> q) & 1)]
        assert len(rest) == n - 1, (len(rest), n)

        def unshift(a):
            lo = (1 << q) - 1
            return (a & lo) | ((a >> (q + 1)) << q)
        return StabGroup(n - 1, [(unshift(x), unshift(z), ph) for x, z, ph in rest])

    def tensor(self, other):
        n = self.n
        gens = list(self.gens) + [(x << n, z << n, ph) for x, z, ph in other.gens]
        return StabGroup(n + other.n, gens)

    def permute(self, perm):
        """new qubit perm[q] holds old qubit q."""
        def mp(a):
            r = 0
            for q in range(self.n):
                if (a >> q) & 1:
                    r |= 1 << perm[q]
            return r
        out = []
        for x, z, ph in self.gens:
            out.append((mp(x), mp(z), ph))
        return StabGroup(self.n, out)

    # --- bridge to vectors ---
    def vector(self):
        n = self.n
        assert n <= 8
        dim = 2 ** n
        P = np.eye(dim, dtype=complex)
        for g in self.gens:
            P = P @ (np.eye(dim) + matrix(g, n)) / 2
        norms = np.linalg.norm(P, axis=0)
        k = int(np.argmax(norms))
        assert norms[k] > 1e-9, "inconsistent group"
        v = P[:, k] / norms[k]
        return v.reshape((2,) * n)

    def stabilises(self, v, tol=1e-9):
        f = sv.flat(v)
        return all(np.linalg.norm(apply_pauli(g, self.n, f) - f) < tol for g in self.gens)

    def key(self):
        """canonical hashable key of the state (reduced echelon form of the signed generators)."""
        n = self.n
        basis = self._basis()
        piv = sorted(basis, reverse=True)
        # fully reduce
        red = {}
        for hb in sorted(piv):
            g = basis[hb]
            for hb2 in sorted(red, reverse=True):
                v = g[0] | (g[1] << n)
                if (v >> hb2) & 1:
                    g = mul(g, red[hb2])
            red[hb] = g
        return (n, tuple(red[h] for h in sorted(red)))


def graph_group(n, edges):
    adj = [0] * n
    for a, b in edges:
        adj[a] |= 1 << b
        adj[b] |= 1 << a
    return StabGroup(n, [(1 << q, adj[q], 0) for q in range(n)])
