"""R7 - a small OpenQASM 2.0 interpreter (standard semantics) for the subset graphiq emits.  No graphiq import.

Supported: OPENQASM 2.0 header; qreg/creg; gate definitions (parameters, bodies executed IN LISTED ORDER; body
statements U(...), CX, calls of previously defined gates, barrier); top-level U, CX, gate calls, measure, reset,
if(creg==k) <op>, barrier.  Builtin U(theta,phi,lambda) = Rz(phi) Ry(theta) Rz(lambda) (up to a global phase).
Execution returns every outcome branch: (probability, state vector, classical registers).
Qubit order: all p registers (by index) first, then all e registers, then any other name.
"""
import math
import re
import numpy as np
from . import statevec as sv


class QasmError(Exception):
    pass


def _eval(expr, env):
    expr = expr.strip()
    if not re.fullmatch(r"[\w\s\.\+\-\*/\(\)]*", expr):
        raise QasmError("bad expression %r" % expr)
    names = dict(env)
    names["pi"] = math.pi
    try:
        return float(eval(expr, {"__builtins__": {}}, names))
    except Exception as e:
        raise QasmError("cannot evaluate %r: %r" % (expr, e))


def u_matrix(theta, phi, lam):
    return np.array([[math.cos(theta / 2), -np.exp(1j * lam) * math.sin(theta / 2)],
                     [np.exp(1j * phi) * math.sin(theta / 2), np.exp(1j * (phi + lam)) * math.cos(theta / 2)]], dtype=complex)


def _split_args(s):
    out, depth, cur = [], 0, ""
    for ch in s:
        if ch == "(":
            depth += 1
        elif ch == ")":
            depth -= 1
        if ch == "," and depth == 0:
            out.append(cur.strip())
            cur = ""
        else:
            cur += ch
    if cur.strip():
        out.append(cur.strip())
    return out


_CALL = re.compile(r"^([A-Za-z_]\w*)\s*(\((.*)\))?\s*(.*)$", re.S)


class Program:
    def __init__(self, text):
        self.gates = {}
        self.qregs = []
        self.cregs = []
        self.stmts = []
        self._parse(text)

    def _parse(self, text):
        text = re.sub(r"//[^\n]*", "", text)
        m = re.match(r"\s*OPENQASM\s+2\.0\s*;", text)
        if not m:
            raise QasmError("missing OPENQASM 2.0 header")
        text = text[m.end():]
        # gate definitions
        pat = re.compile(r"gate\s+([A-Za-z_]\w*)\s*(\(([^)]*)\))?\s*([^{]*)\{([^}]*)\}", re.S)
        pos = 0
        rest = ""
        for g in pat.finditer(text):
            rest += text[pos:g.start()]
            pos = g.end()
            name = g.group(1)
            params = [p.strip() for p in (g.group(3) or "").split(",") if p.strip()]
            qargs = [q.strip() for q in g.group(4).split(",") if q.strip()]
            body = [s.strip() for s in g.group(5).split(";") if s.strip()]
            if name in self.gates:
                # identical redefinition is tolerated; conflicting is an error in standard tools
                if self.gates[name] != (params, qargs, body):
                    raise QasmError("gate %s redefined differently" % name)
            self.gates[name] = (params, qargs, body)
        rest += text[pos:]
        for st in [s.strip() for s in rest.split(";")]:
            if not st:
                continue
            if st.startswith("import"):
                continue
            m = re.match(r"^(qreg|creg)\s+([A-Za-z_]\w*)\s*\[\s*(\d+)\s*\]$", st)
            if m:
                (self.qregs if m.group(1) == "qreg" else self.cregs).append((m.group(2), int(m.group(3))))
                continue
            self.stmts.append(st)

    def qubit_index(self):
        def rank(name):
            m = re.fullmatch(r"([pe])(\d+)", name)
            if m:
                return (0 if m.group(1) == "p" else 1, int(m.group(2)), name)
            return (2, 0, name)
        order = sorted(self.qregs, key=lambda x: rank(x[0]))
        idx = {}
        k = 0
        for name, size in order:
            for b in range(size):
                idx[(name, b)] = k
                k += 1
        return idx, k

    def run(self):
        idx, n = self.qubit_index()
        creg0 = {name: [0] * size for name, size in self.cregs}
        branches = [(1.0, sv.zero(n), creg0)]

        def resolve(arg):
            m = re.fullmatch(r"([A-Za-z_]\w*)\s*\[\s*(\d+)\s*\]", arg.strip())
            if m:
                return [idx[(m.group(1), int(m.group(2)))]]
            name = arg.strip()
            size = dict(self.qregs).get(name)
            if size is None:
                raise QasmError("unknown qubit %r" % arg)
            return [idx[(name, b)] for b in range(size)]

        def apply_gate(v, name, pvals, qubits, depth=0):
            if depth > 20:
                raise QasmError("gate recursion")
            if name == "U":
                return sv.apply1(v, u_matrix(*pvals), qubits[0])
            if name == "CX":
                return sv.cnot(v, qubits[0], qubits[1])
            if name not in self.gates:
                raise QasmError("undefined gate %r" % name)
            params, qargs, body = self.gates[name]
            if len(params) != len(pvals) or len(qargs) != len(qubits):
                raise QasmError("arity mismatch calling %s" % name)
            env = dict(zip(params, pvals))
            qenv = dict(zip(qargs, qubits))
            for st in body:
                if st.startswith("barrier"):
                    continue
                m = _CALL.match(st)
                gname, pstr, qstr = m.group(1), m.group(3), m.group(4)
                pv = [_eval(x, env) for x in _split_args(pstr)] if pstr is not None else []
                qs = [qenv[q.strip()] for q in qstr.split(",") if q.strip()]
                v = apply_gate(v, gname, pv, qs, depth + 1)
            return v

        def exec_op(st, branches):
            st = st.strip()
            if st.startswith("barrier"):
                return branches
            m = re.match(r"^if\s*\(\s*([A-Za-z_]\w*)\s*==\s*(\d+)\s*\)\s*(.*)$", st, re.S)
            if m:
                cname, val, inner = m.group(1), int(m.group(2)), m.group(3)
                out = []
                for p, v, c in branches:
                    if cname not in c:
                        raise QasmError("unknown creg %r" % cname)
                    cur = sum(b << i for i, b in enumerate(c[cname]))
                    if cur == val:
                        out += exec_op(inner, [(p, v, c)])
                    else:
                        out.append((p, v, c))
                return out
            m = re.match(r"^measure\s+(.+?)\s*->\s*([A-Za-z_]\w*)\s*\[\s*(\d+)\s*\]$", st, re.S)
            if m:
                q = resolve(m.group(1))[0]
                cname, cb = m.group(2), int(m.group(3))
                out = []
                for p, v, c in branches:
                    pr = sv.prob_z(v, q)
                    for o in (0, 1):
                        if pr[o] > 1e-9:
                            c2 = {k: list(x) for k, x in c.items()}
                            c2[cname][cb] = o
                            out.append((p * pr[o], sv.project_z(v, q, o), c2))
                return out
            m = re.match(r"^reset\s+(.+)$", st, re.S)
            if m:
                out = []
                for q in resolve(m.group(1)):
                    nb = []
                    for p, v, c in branches:
                        pr = sv.prob_z(v, q)
                        for o in (0, 1):
                            if pr[o] > 1e-9:
                                w = sv.project_z(v, q, o)
                                if o == 1:
                                    w = sv.apply1(w, sv.X, q)
                                nb.append((p * pr[o], w, c))
                    branches = nb
                return branches
            m = _CALL.match(st)
            if not m:
                raise QasmError("cannot parse %r" % st)
            gname, pstr, qstr = m.group(1), m.group(3), m.group(4)
            pv = [_eval(x, {}) for x in _split_args(pstr)] if pstr is not None else []
            qs = [resolve(a)[0] for a in qstr.split(",") if a.strip()]
            return [(p, apply_gate(v, gname, pv, qs), c) for p, v, c in branches]

        for st in self.stmts:
            branches = exec_op(st, branches)
        return branches, n


def signature(text):
    """{(classical record, canonical ray): probability} over all outcome branches."""
    prog = Program(text)
    branches, n = prog.run()
    sig = {}
    cnames = sorted(prog.cregs, key=lambda x: (re.sub(r"\d+", "", x[0]), int(re.sub(r"\D", "", x[0]) or 0)))
    for p, v, c in branches:
        rec = tuple(b for name, size in cnames for b in c[name])
        k = (rec, sv.canon_ray(v, 6))
        sig[k] = sig.get(k, 0.0) + p
    return {k: round(p, 9) for k, p in sig.items()}
