"""R4 - enumerators of the finite spaces the checks quantify over.  No graphiq import."""
import itertools
from . import pauli as P


def all_graphs(n):
    """every labelled simple graph on vertices 0..n-1 as a sorted tuple of edges."""
    pairs = list(itertools.combinations(range(n), 2))
    for mask in range(1 << len(pairs)):
        yield tuple(p for i, p in enumerate(pairs) if (mask >> i) & 1)


def is_connected(n, edges):
    if n == 0:
        return True
    adj = {v: set() for v in range(n)}
    for a, b in edges:
        adj[a].add(b)
        adj[b].add(a)
    seen = {0}
    st = [0]
    while st:
        v = st.pop()
        for w in adj[v]:
            if w not in seen:
                seen.add(w)
                st.append(w)
    return len(seen) == n


def has_isolated(n, edges):
    deg = [0] * n
    for a, b in edges:
        deg[a] += 1
        deg[b] += 1
    return any(d == 0 for d in deg)


_STATE_CACHE = {}


def stabilizer_states(n):
    """all n-qubit stabilizer states as StabGroup, by explicit-state closure of |0..0> under H,S,CNOT.
    Returns list ordered by discovery (BFS), deterministic."""
    if n in _STATE_CACHE:
        return _STATE_CACHE[n]
    start = P.StabGroup.zero(n)
    seen = {start.key(): start}
    order = [start]
    frontier = [start]
    moves = [("H", (q,)) for q in range(n)] + [("P", (q,)) for q in range(n)] + \
            [("CNOT", (a, b)) for a in range(n) for b in range(n) if a != b]
    while frontier:
        nxt = []
        for s in frontier:
            for g, qs in moves:
                t = s.copy().apply(g, *qs)
                k = t.key()
                if k not in seen:
                    c = P.StabGroup(n, list(k[1]))
                    seen[k] = c
                    order.append(c)
                    nxt.append(c)
        frontier = nxt
    _STATE_CACHE[n] = order
    return order


def gl2(n):
    """all invertible n x n matrices over GF(2), rows as ints."""
    def rec(rows):
        if len(rows) == n:
            yield tuple(rows)
            return
        span = {0}
        for r in rows:
            span |= {s ^ r for s in span}
        for v in range(1, 1 << n):
            if v not in span:
                yield from rec(rows + [v])
    yield from rec([])


def presentations(group):
    """all ordered generating sets of the state: every invertible GF(2) combination of the generators."""
    n = group.n
    for m in gl2(n):
        gens = []
        for row in m:
            g = (0, 0, 0)
            for i in range(n):
                if (row >> i) & 1:
                    g = P.mul(g, group.gens[i])
            gens.append(g)
        yield P.StabGroup(n, gens)
