"""R1 - textbook state-vector / density-matrix semantics.  numpy only; no graphiq import.

Qubit 0 is the most significant index (axis 0 of the tensor).  A pure state on n qubits is a complex
array of shape (2,)*n; a density matrix is a (2**n, 2**n) array.
"""
import itertools
import numpy as np

SQ2 = 1 / np.sqrt(2)
I2 = np.eye(2, dtype=complex)
H = np.array([[1, 1], [1, -1]], dtype=complex) * SQ2
S = np.array([[1, 0], [0, 1j]], dtype=complex)
SDG = np.array([[1, 0], [0, -1j]], dtype=complex)
X = np.array([[0, 1], [1, 0]], dtype=complex)
Y = np.array([[0, -1j], [1j, 0]], dtype=complex)
Z = np.array([[1, 0], [0, -1]], dtype=complex)
ONE_QUBIT = {"I": I2, "H": H, "P": S, "S": S, "P_dag": SDG, "Pdag": SDG, "Sdg": SDG, "X": X, "Y": Y, "Z": Z}
PAULI = {"I": I2, "X": X, "Y": Y, "Z": Z}


def zero(n):
    v = np.zeros((2,) * n, dtype=complex)
    v[(0,) * n] = 1
    return v


def from_flat(vec):
    vec = np.asarray(vec, dtype=complex).reshape(-1)
    n = int(round(np.log2(vec.size)))
    return vec.reshape((2,) * n)


def flat(v):
    return v.reshape(-1)


def apply1(v, U, q):
    v = np.tensordot(U, v, axes=([1], [q]))
    return np.moveaxis(v, 0, q)


def apply2(v, U4, q1, q2):
    """U4 is 4x4 acting on (q1,q2) with q1 the more significant."""
    U = U4.reshape(2, 2, 2, 2)
    v = np.tensordot(U, v, axes=([2, 3], [q1, q2]))
    return np.moveaxis(v, [0, 1], [q1, q2])


CNOT4 = np.array([[1, 0, 0, 0], [0, 1, 0, 0], [0, 0, 0, 1], [0, 0, 1, 0]], dtype=complex)
CZ4 = np.diag([1, 1, 1, -1]).astype(complex)


def cnot(v, c, t):
    return apply2(v, CNOT4, c, t)


def cz(v, c, t):
    return apply2(v, CZ4, c, t)


def prob_z(v, q):
    """(p0, p1) of a Z measurement of qubit q."""
    w = np.moveaxis(v, q, 0)
    p0 = float(np.sum(np.abs(w[0]) ** 2))
    p1 = float(np.sum(np.abs(w[1]) ** 2))
    return p0, p1


def project_z(v, q, outcome, normalise=True):
    w = np.moveaxis(v.copy(), q, 0)
    w[1 - outcome] = 0
    w = np.moveaxis(w, 0, q)
    if normalise:
        nrm = np.linalg.norm(w)
        if nrm > 0:
            w = w / nrm
    return w


def norm(v):
    return float(np.linalg.norm(v))


def same_ray(a, b, tol=1e-9):
    a = flat(a)
    b = flat(b)
    na, nb = np.linalg.norm(a), np.linalg.norm(b)
    if na < tol or nb < tol:
        return na < tol and nb < tol
    return abs(abs(np.vdot(a, b)) / (na * nb) - 1) < tol


def overlap2(a, b):
    a = flat(a)
    b = flat(b)
    return float(abs(np.vdot(a, b)) ** 2 / (np.vdot(a, a).real * np.vdot(b, b).real))


def dm(v):
    f = flat(v)
    return np.outer(f, f.conj())


def kron_all(mats):
    out = np.array([[1]], dtype=complex)
    for m in mats:
        out = np.kron(out, m)
    return out


def op_on(n, U, q):
    return kron_all([U if i == q else I2 for i in range(n)])


def pauli_string_matrix(s):
    return kron_all([PAULI[c] for c in s])


def graph_state(n, edges):
    """|G> = prod CZ |+>^n ; vertices 0..n-1."""
    v = np.full((2,) * n, 2 ** (-n / 2), dtype=complex)
    for a, b in edges:
        v = cz(v, a, b)
    return v


def tensor(a, b):
    return np.tensordot(a, b, axes=0)


def canon_ray(v, nd=9):
    """hashable canonical form of a ray."""
    f = flat(v).copy()
    nrm = np.linalg.norm(f)
    if nrm < 1e-12:
        return ("zero",)
    f = f / nrm
    k = int(np.argmax(np.abs(f) > 1e-9))
    f = f * (abs(f[k]) / f[k])
    f = np.round(f, nd) + 0.0
    return tuple((float(z.real) + 0.0, float(z.imag) + 0.0) for z in f)


# ---- density-matrix side (for noise) -------------------------------------------------

def dm_apply(rho, U):
    return U @ rho @ U.conj().T


def dm_apply1(rho, n, U, q):
    return dm_apply(rho, op_on(n, U, q))


def dm_cnot_matrix(n, c, t):
    dim = 2 ** n
    M = np.zeros((dim, dim), dtype=complex)
    for i in range(dim):
        bits = [(i >> (n - 1 - k)) & 1 for k in range(n)]
        if bits[c]:
            bits[t] ^= 1
        j = sum(b << (n - 1 - k) for k, b in enumerate(bits))
        M[j, i] = 1
    return M


def dm_cz_matrix(n, c, t):
    dim = 2 ** n
    d = np.ones(dim, dtype=complex)
    for i in range(dim):
        if (i >> (n - 1 - c)) & 1 and (i >> (n - 1 - t)) & 1:
            d[i] = -1
    return np.diag(d)


def dm_depolarize(rho, n, q, p):
    out = (1 - p) * rho
    for P in (X, Y, Z):
        out = out + (p / 3) * dm_apply1(rho, n, P, q)
    return out


def dm_proj(n, q, outcome):
    P = np.diag([1, 0]).astype(complex) if outcome == 0 else np.diag([0, 1]).astype(complex)
    return op_on(n, P, q)


def partial_trace(rho, n, keep):
    """textbook reduced state on the qubits in `keep` (in the order given)."""
    keep = list(keep)
    t = rho.reshape((2,) * (2 * n))
    drop = [q for q in range(n) if q not in keep]
    # trace out dropped qubits one by one (highest index first so axes stay valid)
    cur_n = n
    labels = list(range(n))
    for q in sorted(drop, reverse=True):
        ax = labels.index(q)
        t = np.trace(t, axis1=ax, axis2=ax + cur_n)
        labels.pop(ax)
        cur_n -= 1
    # now reorder to `keep` order
    perm = [labels.index(q) for q in keep]
    t = np.transpose(t, perm + [p + cur_n for p in perm])
    return t.reshape(2 ** cur_n, 2 ** cur_n)


def psd_sqrt(a):
    w, v = np.linalg.eigh((a + a.conj().T) / 2)
    w = np.clip(w, 0, None)
    return (v * np.sqrt(w)) @ v.conj().T


def uhlmann_fidelity(rho, sigma):
    s = psd_sqrt(rho)
    m = s @ sigma @ s
    w = np.linalg.eigvalsh((m + m.conj().T) / 2)
    w = np.clip(w, 0, None)
    return float(np.sum(np.sqrt(w)) ** 2)


def trace_distance(rho, sigma):
    d = rho - sigma
    w = np.linalg.eigvalsh((d + d.conj().T) / 2)
    return float(0.5 * np.sum(np.abs(w)))
