"""./check <ID> <tier>  ->  python -m vt.runner <ID> --tier quick|thorough     (or --replay <file>)"""
import argparse
import importlib
import json
import os
import sys
import time

from . import core


def assert_repo():
    import graphiq
    p = os.path.realpath(graphiq.__file__)
    root = os.environ.get("GRAPHIQ_ROOT", "/repo")
    if not p.startswith(os.path.realpath(root) + os.sep):
        raise core.HarnessError("graphiq imported from %s, not %s" % (p, root))


def write_evidence(mod, acc, tier, seed, wall, n_unknown, n_known, extra):
    cov = {
        "states": max(1, len(acc.states)),
        "transitions": max(1, acc.transitions),
        "traces_validated_against_impl": acc.validated,
        "samples": acc.samples or ["(none recorded)"],
        "evaluations": acc.evaluations,
        "distinct_nontrivial": len(acc.nontrivial),
        "rule": mod.META.get("rule", ""),
        "exhaustive": acc.caps_hit == 0,
        "max_depth": acc.max_depth,
        "caps_hit": acc.caps_hit,
        "unowned_randomness": acc.unowned,
        "refusals": dict(acc.refusals),
        "counters": dict(acc.counters),
        "bounds": mod.META.get("bounds", {}).get(tier, ""),
        "known_findings_matched": n_known,
        "engine": mod.META.get("engine", ""),
    }
    cov.update(extra or {})
    ev = {
        "property_id": mod.ID,
        "tier": tier,
        "seed": seed,
        "level": "model_checking",
        "coverage": cov,
        "assumptions": mod.META.get("assumptions", []),
        "wall_s": round(wall, 2),
        "violations": n_unknown,
    }
    evdir = os.environ.get("VERIF_EVIDENCE_DIR") or os.path.join(core.VERIF, "evidence")
    os.makedirs(evdir, exist_ok=True)
    path = os.path.join(evdir, mod.ID + ".json")
    with open(path, "w") as f:
        f.write(core.jdump(ev))
        f.write("\n")
    return path


def write_replay(mod, key, ex, tier):
    d = os.path.join(os.environ.get("VERIF_REPLAY_DIR") or os.path.join(core.VERIF, "replays"), mod.ID)
    os.makedirs(d, exist_ok=True)
    rec = {"property": mod.ID, "key": key, "tier": tier}
    rec.update(ex)
    digest = "%016x" % core.h64(core.jdump([key, ex["case"]]))
    path = os.path.join(d, digest + ".json")
    with open(path, "w") as f:
        f.write(json.dumps(json.loads(core.jdump(rec)), indent=1))
        f.write("\n")
    return path


def replay(path):
    """re-run one recorded case without the explorer.  Exit 1 iff an unlisted violation shows; violations that match a listed
    known finding (e.g. in the history prefix a case depends on) are printed as KNOWN-FINDING and do not count."""
    with open(path) as f:
        rec = json.load(f)
    mod = importlib.import_module("vt.props." + rec["property"].lower())
    acc = core.Acc(mod.ID, predicates=getattr(mod, "PREDICATES", {}))
    old = sys.stdout
    sys.stdout = open(os.devnull, "w")
    try:
        mod.replay_case(rec["case"], acc)
    finally:
        sys.stdout = old
    unlisted = 0
    for (key, fid), slot in sorted(acc.viol.items(), key=lambda kv: (kv[0][0], str(kv[0][1]))):
        if fid is not None:
            print("KNOWN-FINDING: property=%s %s reproduced in the replayed history (%d cases)" % (mod.ID, fid, slot["count"]))
            continue
        unlisted += 1
        for ex in slot["examples"]:
            print("REPRODUCED key=%s%s\n  case=%s\n  expected=%s\n  observed=%s" % (
                key, "" if key == rec.get("key") else " (another symptom than the recorded one)", core.jdump(ex["case"]), core.jdump(ex["expected"]), core.jdump(ex["observed"])))
    if not unlisted:
        print("NOT REPRODUCED: the recorded case now passes")
    return 1 if unlisted else 0


def main(argv=None):
    ap = argparse.ArgumentParser()
    ap.add_argument("prop", nargs="?")
    ap.add_argument("--tier", default=os.environ.get("VERIF_TIER", "quick"))
    ap.add_argument("--replay")
    ap.add_argument("--nproc", type=int, default=None)
    args = ap.parse_args(argv)
    assert_repo()
    if args.replay:
        return replay(args.replay)
    tier = args.tier if args.tier in ("quick", "thorough") else "quick"
    seed = int(os.environ.get("VERIF_SEED", "0") or 0)
    mod = importlib.import_module("vt.props." + args.prop.lower())
    t0 = time.time()
    try:
        if hasattr(mod, "prepare"):
            mod.prepare(tier)  # e.g. build large reference enumerations once, before the workers are forked
        if hasattr(mod, "run"):
            acc = mod.run(tier, seed)
        else:
            shards = mod.shards(tier)
            # VERIF_SEED only rotates the order in which shards are visited (exploration is exhaustive).
            if shards:
                r = seed % len(shards)
                order = shards[r:] + shards[:r]
            else:
                order = shards
            acc = core.run_pool("vt.props." + args.prop.lower(), order, tier, nproc=args.nproc)
        extra = mod.finalize(acc, tier) if hasattr(mod, "finalize") else None
    except core.HarnessError as e:
        sys.stderr.write("HARNESS-ERROR %s\n" % e)
        return 2
    wall = time.time() - t0
    n_unknown = 0
    n_known = 0
    lines = []
    findings = {e["id"]: e for e in core.load_findings(mod.ID)}
    known_hit = {}
    for (key, fid), slot in sorted(acc.viol.items(), key=lambda kv: (kv[0][0], str(kv[0][1]))):
        if fid is None:
            n_unknown += slot["count"]
            ex = slot["examples"][0]
            path = write_replay(mod, key, ex, tier)
            lines.append("VIOLATION property=%s replay=%s" % (mod.ID, path))
            sys.stderr.write("  unlisted violation key=%s count=%d\n    case=%s\n    expected=%s\n    observed=%s\n" % (
                key, slot["count"], core.jdump(ex["case"])[:600], core.jdump(ex["expected"])[:300],
                core.jdump(ex["observed"])[:300]))
        else:
            n_known += slot["count"]
            known_hit[fid] = known_hit.get(fid, 0) + slot["count"]
    for fid, cnt in sorted(known_hit.items()):
        print("KNOWN-FINDING: property=%s %s [%s, %d cases]" % (mod.ID, findings[fid]["what"], fid, cnt))
    if acc.unowned:
        sys.stderr.write("HARNESS-ERROR unowned randomness reached %d times\n" % acc.unowned)
        return 2
    path = write_evidence(mod, acc, tier, seed, wall, n_unknown, n_known, extra)
    sys.stderr.write("[%s %s] evaluations=%d states=%d transitions=%d nontrivial=%d refusals=%d known=%d unknown=%d wall=%.1fs\n" % (
        mod.ID, tier, acc.evaluations, len(acc.states), acc.transitions, len(acc.nontrivial),
        sum(acc.refusals.values()), n_known, n_unknown, wall))
    for ln in lines:
        print(ln)
    return 1 if n_unknown else 0


if __name__ == "__main__":
    sys.exit(main())
