"""Self-test of the reference models and the explorer (run by setup.sh)."""
import itertools
import sys
import numpy as np

from .ref import statevec as sv, pauli as P, gf2, spaces, graphs
from .explore import explore, Chooser, ReplayDivergence


def main():
    # R1 identities
    assert np.allclose(sv.H @ sv.Z @ sv.H, sv.X)
    assert np.allclose(sv.S @ sv.S, sv.Z)
    bell = sv.cnot(sv.apply1(sv.zero(2), sv.H, 0), 0, 1)
    assert np.allclose(sv.flat(bell), [2 ** -0.5, 0, 0, 2 ** -0.5])
    # R2 conjugation tables against R1 matrices
    n = 2
    G1 = {"I": sv.I2, "H": sv.H, "P": sv.S, "P_dag": sv.SDG, "X": sv.X, "Y": sv.Y, "Z": sv.Z}
    for x in range(4):
        for z in range(4):
            a = (x, z, 0)
            M = P.matrix(a, n)
            for g, U in G1.items():
                for q in range(n):
                    UU = sv.op_on(n, U, q)
                    assert np.allclose(UU @ M @ UU.conj().T, P.matrix(P.conj(a, g, (q,)), n))
            for c, t in ((0, 1), (1, 0)):
                for g, UU in (("CNOT", sv.dm_cnot_matrix(n, c, t)), ("CZ", sv.dm_cz_matrix(n, c, t))):
                    assert np.allclose(UU @ M @ UU.conj().T, P.matrix(P.conj(a, g, (c, t)), n))
    # state counts
    assert [len(spaces.stabilizer_states(k)) for k in (1, 2, 3)] == [6, 60, 1080]
    assert len(list(spaces.gl2(2))) == 6 and len(list(spaces.gl2(3))) == 168
    # every group's vector is stabilised by it; measurement agrees with R1
    for s in spaces.stabilizer_states(2):
        v = s.vector()
        assert s.stabilises(v)
        for q in range(2):
            p = sv.prob_z(v, q)
            assert {b for b in (0, 1) if p[b] > 1e-9} == s.z_outcomes(q)
            for b in s.z_outcomes(q):
                t = s.copy().measure_z(q, b)
                assert t.stabilises(sv.project_z(v, q, b))
    # LC orbit counts (labelled orbits) and literature class counts of connected graphs up to LC+iso
    assert [len(graphs.orbit_partition(k)[1]) for k in (2, 3, 4)] == [2, 5, 18]
    for k, want in ((2, 1), (3, 1), (4, 2), (5, 4)):
        ids, orbs = graphs.orbit_partition(k)
        reps = []
        for orb in orbs:
            g = orb[0]
            if not spaces.is_connected(k, g):
                continue
            if not any(any(graphs.isomorphic(k, h, r) for h in orb) for r in reps):
                reps.append(g)
        assert len(reps) == want, (k, len(reps))
    # gf2
    assert gf2.rank([0b11, 0b01, 0b10]) == 2
    # explorer: toy tree with a planted leaf
    leaves = []

    def body(ch):
        a = ch.choose(3, "a")
        b = ch.choose(2, "b") if a == 1 else 0
        return (a, b)
    for ch, obs in explore(body):
        leaves.append(obs)
    assert sorted(leaves) == [(0, 0), (1, 0), (1, 1), (2, 0)], leaves
    try:
        Chooser([5]).choose(2, "x")
        raise SystemExit("replay divergence not detected")
    except ReplayDivergence:
        pass
    # tripwire
    from .env import Owned, UnownedRandomness
    try:
        with Owned(Chooser()):
            np.random.normal()
        raise SystemExit("tripwire silent")
    except UnownedRandomness:
        pass
    with Owned(Chooser([1, 0])):
        assert np.random.randint(0, 2) == 1 and np.random.randint(0, 2) == 0
    # graphiq importable from the expected tree
    from .runner import assert_repo
    assert_repo()
    print("selftest ok")


if __name__ == "__main__":
    main()
