"""helpers to drive graphiq's deterministic solver from graph descriptions."""
import numpy as np
from . import gq
from .ref import statevec as sv, pauli as P


def make_target(n, edges, form):
    """form: g (nx graph, labels 0..n-1), g1 (labels 1..n), s (graphiq's own tableau), sx (R2 tableau in a
    non-canonical generating set), dm (ndarray)."""
    from graphiq.state import QuantumState
    from graphiq.backends.stabilizer.functions.rep_conversion import get_clifford_tableau_from_graph
    if form == "g":
        return QuantumState(gq.nx_graph(n, edges), rep_type="g")
    if form == "g1":
        return QuantumState(gq.nx_graph(n, edges, labels=list(range(1, n + 1))), rep_type="g")
    if form == "s":
        return QuantumState(get_clifford_tableau_from_graph(gq.nx_graph(n, edges)), rep_type="s")
    if form == "sx":
        grp = P.graph_group(n, edges)
        gens = list(grp.gens)
        # non-canonical: g_i <- g_i * g_{i+1} for even i, reversed order
        for i in range(0, n - 1, 2):
            gens[i] = P.mul(gens[i], gens[i + 1])
        gens = gens[::-1]
        return QuantumState(gq.group_to_clifford_tableau(P.StabGroup(n, gens)), rep_type="s")
    if form == "dm":
        return QuantumState(sv.dm(sv.graph_state(n, edges)), rep_type="dm")
    raise ValueError(form)


def compiler(backend, setting):
    from graphiq.backends.stabilizer.compiler import StabilizerCompiler
    from graphiq.backends.density_matrix.compiler import DensityMatrixCompiler
    c = {"stab": StabilizerCompiler, "dm": DensityMatrixCompiler}[backend]()
    c.measurement_determinism = setting
    return c


def run_trs(n, edges, form="g", backend="stab", setting=1):
    from graphiq.solvers.time_reversed_solver import TimeReversedSolver
    from graphiq.metrics import Infidelity
    target = make_target(n, edges, form)
    solver = TimeReversedSolver(target=target, metric=Infidelity(target), compiler=compiler(backend, setting))
    solver.solve()
    score, circ = solver.result
    return score, circ, solver


def target_vector(n, edges, n_emitters):
    v = sv.graph_state(n, edges) if n > 0 else sv.zero(0)
    if n_emitters:
        v = sv.tensor(v, sv.zero(n_emitters))
    return v
